//! Exploration engine plumbing: counters, violations grouped by signature, known findings,
//! evidence files, replay files, panic capture, parallel enumeration helpers.

use rayon::prelude::*;
use serde_json::{json, Value};
use std::cell::RefCell;
use std::collections::{BTreeMap, BTreeSet, HashSet};
use std::hash::{Hash, Hasher};
use std::panic::{catch_unwind, AssertUnwindSafe};
use std::path::PathBuf;
use std::sync::atomic::{AtomicBool, Ordering};
use std::sync::Mutex;
use std::time::{Duration, Instant};

pub const VERIF_ROOT: &str = "/verif";

#[derive(Clone, Copy, PartialEq, Eq, Debug)]
pub enum Tier {
    Quick,
    Thorough,
}

impl Tier {
    pub fn name(self) -> &'static str {
        match self {
            Tier::Quick => "quick",
            Tier::Thorough => "thorough",
        }
    }
    pub fn pick<T>(self, quick: T, thorough: T) -> T {
        match self {
            Tier::Quick => quick,
            Tier::Thorough => thorough,
        }
    }
}

#[derive(Clone, Debug)]
pub struct Violation {
    pub signature: String,
    pub case: Value,
    pub detail: String,
    pub count: u64,
}

/// Per-worker accumulator; merged at the end of a parallel enumeration.
#[derive(Default)]
pub struct Local {
    pub evaluations: u64,
    pub transitions: u64,
    pub states: u64,
    pub nontrivial: u64,
    pub skipped_close: u64,
    pub outcomes: HashSet<u64>,
    pub violations: BTreeMap<String, Violation>,
    pub samples: Vec<(u64, Value)>,
    pub extra: BTreeMap<String, u64>,
}

fn case_key(v: &Value) -> (usize, String) {
    let s = v.to_string();
    (s.len(), s)
}

impl Local {
    pub fn new() -> Self {
        Self::default()
    }
    /// Record one distinct oracle outcome (vacuity alarm: must end up >> 1).
    pub fn outcome<H: Hash>(&mut self, h: &H) {
        let mut s = std::collections::hash_map::DefaultHasher::new();
        h.hash(&mut s);
        self.outcomes.insert(s.finish());
    }
    pub fn bump(&mut self, key: &str, n: u64) {
        *self.extra.entry(key.to_string()).or_insert(0) += n;
    }
    pub fn violation(&mut self, signature: &str, case: impl FnOnce() -> Value, detail: String) {
        match self.violations.get_mut(signature) {
            Some(v) => {
                v.count += 1;
                // keep the smallest case (deterministic regardless of worker scheduling)
                if v.count < 200 {
                    let c = case();
                    if case_key(&c) < case_key(&v.case) {
                        v.case = c;
                        v.detail = detail;
                    }
                }
            }
            None => {
                self.violations.insert(
                    signature.to_string(),
                    Violation {
                        signature: signature.to_string(),
                        case: case(),
                        detail,
                        count: 1,
                    },
                );
            }
        }
    }
    pub fn merge(mut self, other: Local) -> Local {
        self.evaluations += other.evaluations;
        self.transitions += other.transitions;
        self.states += other.states;
        self.nontrivial += other.nontrivial;
        self.skipped_close += other.skipped_close;
        self.outcomes.extend(other.outcomes);
        for (k, v) in other.extra {
            *self.extra.entry(k).or_insert(0) += v;
        }
        for (k, v) in other.violations {
            match self.violations.get_mut(&k) {
                Some(mine) => {
                    mine.count += v.count;
                    if case_key(&v.case) < case_key(&mine.case) {
                        mine.case = v.case;
                        mine.detail = v.detail;
                    }
                }
                None => {
                    self.violations.insert(k, v);
                }
            }
        }
        self.samples.extend(other.samples);
        self
    }
}

pub struct Ctx {
    pub property: String,
    pub tier: Tier,
    pub seed: u64,
    pub start: Instant,
    pub deadline: Instant,
    pub cap_hit: AtomicBool,
    /// set once the first sample has been asked for (the first eligible case is always kept, so that the
    /// evidence never has an empty sample list whatever the seed)
    pub sample_given: AtomicBool,
    pub replay_mode: bool,
    pub total: Mutex<Local>,
    pub notes: Mutex<BTreeMap<String, Value>>,
    pub assumptions: Mutex<Vec<String>>,
}

impl Ctx {
    pub fn new(property: &str, tier: Tier, seed: u64) -> Self {
        let start = Instant::now();
        let cap = std::env::var("VERIF_CAP_S")
            .ok()
            .and_then(|s| s.parse::<u64>().ok())
            .unwrap_or(tier.pick(240, 1500));
        Ctx {
            property: property.to_string(),
            tier,
            seed,
            start,
            deadline: start + Duration::from_secs(cap),
            cap_hit: AtomicBool::new(false),
            sample_given: AtomicBool::new(false),
            replay_mode: false,
            total: Mutex::new(Local::new()),
            notes: Mutex::new(BTreeMap::new()),
            assumptions: Mutex::new(Vec::new()),
        }
    }

    pub fn expired(&self) -> bool {
        if Instant::now() > self.deadline {
            self.cap_hit.store(true, Ordering::Relaxed);
            true
        } else {
            false
        }
    }

    pub fn note(&self, key: &str, v: Value) {
        self.notes.lock().unwrap().insert(key.to_string(), v);
    }

    pub fn assume(&self, s: &str) {
        let mut a = self.assumptions.lock().unwrap();
        if !a.iter().any(|x| x == s) {
            a.push(s.to_string());
        }
    }

    /// Should the case with this running index be written out as a sample?
    pub fn want_sample(&self, idx: u64) -> bool {
        let mut s = std::collections::hash_map::DefaultHasher::new();
        (idx, self.seed).hash(&mut s);
        let first = !self.sample_given.swap(true, std::sync::atomic::Ordering::Relaxed);
        first || s.finish() % 4099 == 0 || idx == 0
    }

    pub fn absorb(&self, l: Local) {
        let mut t = self.total.lock().unwrap();
        let old = std::mem::take(&mut *t);
        *t = old.merge(l);
    }

    /// Run `f(local, i)` for every `i in 0..n` on all cores, merging the per-worker accumulators.
    pub fn par<F>(&self, n: usize, f: F)
    where
        F: Fn(&mut Local, usize) + Sync + Send,
    {
        let l = (0..n)
            .into_par_iter()
            .fold(Local::new, |mut l, i| {
                if !self.cap_hit.load(Ordering::Relaxed) {
                    f(&mut l, i);
                    if l.evaluations % 4096 == 0 {
                        self.expired();
                    }
                }
                l
            })
            .reduce(Local::new, Local::merge);
        self.absorb(l);
    }

    /// Sequential section with its own accumulator.
    pub fn seq<F: FnOnce(&mut Local)>(&self, f: F) {
        let mut l = Local::new();
        f(&mut l);
        self.absorb(l);
    }
}

// ---------------------------------------------------------------------------------------------
// Panic capture around SDK calls
// ---------------------------------------------------------------------------------------------

thread_local! {
    static LAST_PANIC: RefCell<Option<String>> = const { RefCell::new(None) };
    static IN_SDK: RefCell<u32> = const { RefCell::new(0) };
}

pub fn install_panic_hook() {
    let default = std::panic::take_hook();
    std::panic::set_hook(Box::new(move |info| {
        let in_sdk = IN_SDK.with(|c| *c.borrow() > 0);
        if in_sdk {
            let msg = if let Some(s) = info.payload().downcast_ref::<&str>() {
                s.to_string()
            } else if let Some(s) = info.payload().downcast_ref::<String>() {
                s.clone()
            } else {
                "<non-string panic>".to_string()
            };
            let loc = info
                .location()
                .map(|l| format!(" at {}:{}", l.file(), l.line()))
                .unwrap_or_default();
            LAST_PANIC.with(|p| *p.borrow_mut() = Some(format!("{msg}{loc}")));
        } else {
            default(info);
        }
    }));
}

/// Run an SDK call; a panic becomes `Err(message)`.
pub fn sdk<T>(f: impl FnOnce() -> T) -> Result<T, String> {
    IN_SDK.with(|c| *c.borrow_mut() += 1);
    let r = catch_unwind(AssertUnwindSafe(f));
    IN_SDK.with(|c| *c.borrow_mut() -= 1);
    match r {
        Ok(v) => Ok(v),
        Err(_) => Err(LAST_PANIC
            .with(|p| p.borrow_mut().take())
            .unwrap_or_else(|| "<panic>".to_string())),
    }
}

// ---------------------------------------------------------------------------------------------
// Known findings
// ---------------------------------------------------------------------------------------------

#[derive(Debug, Clone)]
pub struct Known {
    pub property: String,
    pub signature: String,
    pub text: String,
}

pub fn load_known() -> Vec<Known> {
    let path = format!("{VERIF_ROOT}/known_findings.txt");
    let Ok(s) = std::fs::read_to_string(path) else {
        return vec![];
    };
    let mut out = vec![];
    for line in s.lines() {
        let line = line.trim();
        let Some(rest) = line.strip_prefix("known:") else {
            continue; // "fixed:" entries and comments suppress nothing
        };
        let mut property = String::new();
        let mut signature = String::new();
        let mut text = vec![];
        for tok in rest.split_whitespace() {
            if let Some(p) = tok.strip_prefix("property=") {
                if property.is_empty() {
                    property = p.to_string();
                    continue;
                }
            }
            if let Some(p) = tok.strip_prefix("signature=") {
                if signature.is_empty() {
                    signature = p.to_string();
                    continue;
                }
            }
            text.push(tok);
        }
        if !property.is_empty() && !signature.is_empty() {
            out.push(Known {
                property,
                signature,
                text: text.join(" "),
            });
        }
    }
    out
}

fn sanitize(sig: &str) -> String {
    sig.chars()
        .map(|c| {
            if c.is_ascii_alphanumeric() || c == '-' || c == '_' || c == '.' {
                c
            } else {
                '_'
            }
        })
        .collect()
}

// ---------------------------------------------------------------------------------------------
// Finishing a run: evidence + verdict
// ---------------------------------------------------------------------------------------------

pub struct Finish {
    pub level: &'static str,
    pub rule: String,
    pub bounds: Value,
    pub exhaustive: bool,
}

/// Writes evidence, prints KNOWN-FINDING / VIOLATION lines and returns the exit code.
pub fn finish(ctx: &Ctx, fin: Finish) -> i32 {
    let total = std::mem::take(&mut *ctx.total.lock().unwrap());
    let known = load_known();
    let mut new_violations: Vec<&Violation> = vec![];
    let mut known_hits: Vec<(&Violation, &Known)> = vec![];
    for v in total.violations.values() {
        if let Some(k) = known
            .iter()
            .find(|k| k.property == ctx.property && k.signature == v.signature)
        {
            known_hits.push((v, k));
        } else {
            new_violations.push(v);
        }
    }
    let wall = ctx.start.elapsed().as_secs_f64();
    let cap_hit = ctx.cap_hit.load(Ordering::Relaxed);

    let mut samples: Vec<(u64, Value)> = total.samples.clone();
    samples.sort_by_key(|(i, _)| {
        let mut s = std::collections::hash_map::DefaultHasher::new();
        (i, ctx.seed).hash(&mut s);
        s.finish()
    });
    samples.truncate(6);
    let samples: Vec<Value> = samples
        .into_iter()
        .map(|(i, v)| json!({"index": i, "case": v}))
        .collect();

    let mut coverage = serde_json::Map::new();
    coverage.insert("states".into(), json!(total.states.max(1)));
    coverage.insert("transitions".into(), json!(total.transitions.max(1)));
    coverage.insert(
        "traces_validated_against_impl".into(),
        json!(total.evaluations),
    );
    coverage.insert("evaluations".into(), json!(total.evaluations.max(1)));
    coverage.insert("distinct_nontrivial".into(), json!(total.nontrivial));
    coverage.insert("rule".into(), json!(fin.rule));
    coverage.insert("distinct_outcomes".into(), json!(total.outcomes.len()));
    coverage.insert("bounds".into(), fin.bounds.clone());
    coverage.insert("exhaustive".into(), json!(fin.exhaustive && !cap_hit));
    coverage.insert("cap_hit".into(), json!(cap_hit));
    coverage.insert(
        "skipped_too_close_to_threshold".into(),
        json!(total.skipped_close),
    );
    coverage.insert("samples".into(), Value::Array(samples));
    for (k, v) in &total.extra {
        coverage.insert(k.clone(), json!(v));
    }
    for (k, v) in ctx.notes.lock().unwrap().iter() {
        coverage.insert(k.clone(), v.clone());
    }
    coverage.insert(
        "violation_signatures".into(),
        json!(new_violations
            .iter()
            .map(|v| json!({"signature": v.signature, "failing_cases": v.count}))
            .collect::<Vec<_>>()),
    );
    coverage.insert(
        "known_findings".into(),
        json!(known_hits
            .iter()
            .map(|(v, k)| json!({"signature": v.signature, "failing_cases": v.count, "text": k.text}))
            .collect::<Vec<_>>()),
    );

    let evidence = json!({
        "property_id": ctx.property,
        "tier": ctx.tier.name(),
        "seed": ctx.seed,
        "level": fin.level,
        "coverage": Value::Object(coverage),
        "assumptions": ctx.assumptions.lock().unwrap().clone(),
        "wall_s": wall,
        "violations": new_violations.len(),
    });
    // VERIF_EVIDENCE_DIR: used by the seeded-change tools so that a run against a deliberately broken
    // tree does not overwrite the evidence of the real tree
    let evdir = std::env::var("VERIF_EVIDENCE_DIR").unwrap_or_else(|_| format!("{VERIF_ROOT}/evidence"));
    let _ = std::fs::create_dir_all(&evdir);
    let evpath = format!("{evdir}/{}.json", ctx.property);
    if let Err(e) = std::fs::write(&evpath, serde_json::to_string_pretty(&evidence).unwrap()) {
        eprintln!("ENGINE-ERROR: cannot write {evpath}: {e}");
        return 2;
    }

    println!(
        "[{}] tier={} evaluations={} states={} transitions={} distinct_outcomes={} nontrivial={} cap_hit={} wall={:.1}s",
        ctx.property,
        ctx.tier.name(),
        total.evaluations,
        total.states,
        total.transitions,
        total.outcomes.len(),
        total.nontrivial,
        cap_hit,
        wall
    );
    for (v, k) in &known_hits {
        println!(
            "KNOWN-FINDING: property={} {} (signature={} failing_cases={})",
            ctx.property, k.text, v.signature, v.count
        );
    }
    if new_violations.is_empty() {
        if total.evaluations == 0 {
            eprintln!("ENGINE-ERROR: nothing was explored");
            return 2;
        }
        return 0;
    }
    let rdir = format!("{VERIF_ROOT}/replays/{}", ctx.property);
    let _ = std::fs::create_dir_all(&rdir);
    for v in &new_violations {
        let path = PathBuf::from(format!("{rdir}/{}.json", sanitize(&v.signature)));
        let body = json!({
            "property": ctx.property,
            "signature": v.signature,
            "failing_cases_in_run": v.count,
            "detail": v.detail,
            "case": v.case,
        });
        let _ = std::fs::write(&path, serde_json::to_string_pretty(&body).unwrap());
        println!(
            "VIOLATION property={} replay={}",
            ctx.property,
            path.display()
        );
        println!(
            "  signature={} failing_cases={} detail={}",
            v.signature,
            v.count,
            truncate(&v.detail, 600)
        );
    }
    1
}

pub fn truncate(s: &str, n: usize) -> String {
    if s.len() <= n {
        s.to_string()
    } else {
        let mut end = n;
        while !s.is_char_boundary(end) {
            end -= 1;
        }
        format!("{}…", &s[..end])
    }
}

/// Private scratch directory (removed when dropped).
pub struct Scratch(pub PathBuf);

impl Scratch {
    pub fn new(tag: &str) -> Self {
        let base = std::env::temp_dir().join(format!(
            "ommx-mc-{}-{}-{}",
            tag,
            std::process::id(),
            std::time::SystemTime::now()
                .duration_since(std::time::UNIX_EPOCH)
                .map(|d| d.as_nanos())
                .unwrap_or(0)
        ));
        std::fs::create_dir_all(&base).expect("scratch dir");
        Scratch(base)
    }
    pub fn path(&self, name: &str) -> PathBuf {
        self.0.join(name)
    }
}

impl Drop for Scratch {
    fn drop(&mut self) {
        let _ = std::fs::remove_dir_all(&self.0);
    }
}

/// Remove every scratch directory this process created (thread-local ones are not dropped at exit).
pub fn cleanup_scratch() {
    let pid = format!("-{}-", std::process::id());
    if let Ok(rd) = std::fs::read_dir(std::env::temp_dir()) {
        for e in rd.flatten() {
            let n = e.file_name().to_string_lossy().to_string();
            if n.starts_with("ommx-mc-") && n.contains(&pid) {
                let _ = std::fs::remove_dir_all(e.path());
            }
        }
    }
}

/// All permutations of 0..n (n small).
pub fn permutations(n: usize) -> Vec<Vec<usize>> {
    fn rec(cur: &mut Vec<usize>, used: &mut Vec<bool>, n: usize, out: &mut Vec<Vec<usize>>) {
        if cur.len() == n {
            out.push(cur.clone());
            return;
        }
        for i in 0..n {
            if !used[i] {
                used[i] = true;
                cur.push(i);
                rec(cur, used, n, out);
                cur.pop();
                used[i] = false;
            }
        }
    }
    let mut out = vec![];
    rec(&mut vec![], &mut vec![false; n], n, &mut out);
    out
}

/// Mixed-radix odometer: calls `f(digits)` for every vector with `digits[i] < radix[i]`.
pub fn odometer(radix: &[usize], mut f: impl FnMut(&[usize])) {
    if radix.iter().any(|&r| r == 0) {
        return;
    }
    let mut d = vec![0usize; radix.len()];
    loop {
        f(&d);
        let mut i = 0;
        loop {
            if i == radix.len() {
                return;
            }
            d[i] += 1;
            if d[i] < radix[i] {
                break;
            }
            d[i] = 0;
            i += 1;
        }
    }
}

/// All sequences over `0..k` of length exactly `len`.
pub fn sequences(k: usize, len: usize) -> Vec<Vec<usize>> {
    let mut out = vec![];
    if len == 0 {
        out.push(vec![]);
        return out;
    }
    odometer(&vec![k; len], |d| out.push(d.to_vec()));
    out
}

pub fn btset<T: Ord + Clone>(v: &[T]) -> BTreeSet<T> {
    v.iter().cloned().collect()
}

//! ommx-mc: bounded exhaustive exploration of Jij-Inc/ommx against reference models.
//!
//!   ommx-mc run <ID> [--tier quick|thorough]
//!   ommx-mc replay <file>
//!   ommx-mc child <probe> <args…>     (internal: isolated subprocess probes)

mod engine;
mod props;
mod refmodel;

use engine::*;

fn usage() -> ! {
    eprintln!("usage: ommx-mc run <ID> [--tier quick|thorough] | replay <file> | child <probe> ...");
    std::process::exit(2)
}

fn real_main() -> i32 {
    let args: Vec<String> = std::env::args().collect();
    if args.len() < 3 {
        usage();
    }
    install_panic_hook();
    let seed = std::env::var("VERIF_SEED")
        .ok()
        .and_then(|s| s.parse::<u64>().ok())
        .unwrap_or(0);
    match args[1].as_str() {
        "run" => {
            let id = args[2].to_uppercase();
            let mut tier = match std::env::var("VERIF_TIER").ok().as_deref() {
                Some("thorough") => Tier::Thorough,
                _ => Tier::Quick,
            };
            let mut i = 3;
            while i < args.len() {
                if args[i] == "--tier" && i + 1 < args.len() {
                    tier = match args[i + 1].as_str() {
                        "thorough" => Tier::Thorough,
                        "quick" => Tier::Quick,
                        _ => usage(),
                    };
                    i += 1;
                }
                i += 1;
            }
            let Some((_, run, _)) = props::registry().into_iter().find(|(n, _, _)| *n == id) else {
                eprintln!("ENGINE-ERROR: unknown property {id}");
                return 2;
            };
            let ctx = Ctx::new(&id, tier, seed);
            // last-resort watchdog: a subject call that never returns must not hang the check forever
            // (the per-property watchdog of C04 reports hangs as violations; this one only terminates)
            let limit = ctx.deadline + std::time::Duration::from_secs(120);
            std::thread::spawn(move || loop {
                std::thread::sleep(std::time::Duration::from_secs(2));
                if std::time::Instant::now() > limit {
                    eprintln!("ENGINE-ERROR: the exploration did not finish within its time cap plus 120 s (a subject call may be hanging); this is a machinery exit, not a verdict");
                    cleanup_scratch();
                    std::process::exit(2);
                }
            });
            let fin = run(&ctx);
            finish(&ctx, fin)
        }
        "replay" => {
            let body = match std::fs::read_to_string(&args[2]) {
                Ok(b) => b,
                Err(e) => {
                    eprintln!("ENGINE-ERROR: cannot read {}: {e}", args[2]);
                    return 2;
                }
            };
            let v: serde_json::Value = match serde_json::from_str(&body) {
                Ok(v) => v,
                Err(e) => {
                    eprintln!("ENGINE-ERROR: bad replay file: {e}");
                    return 2;
                }
            };
            let id = v["property"].as_str().unwrap_or("").to_string();
            let Some((_, _, replay)) = props::registry().into_iter().find(|(n, _, _)| *n == id) else {
                eprintln!("ENGINE-ERROR: unknown property {id}");
                return 2;
            };
            // Re-execute the same case several times: a verdict that changes between
            // repetitions would reveal dependence on un-owned nondeterminism (hash order).
            let mut verdicts = vec![];
            for rep in 0..5 {
                let mut l = Local::new();
                if let Err(e) = replay(&mut l, &v["case"]) {
                    eprintln!("ENGINE-ERROR: cannot replay: {e}");
                    return 2;
                }
                let sigs: Vec<String> = l.violations.keys().cloned().collect();
                if rep == 0 {
                    println!("replay of {} case: {}", id, truncate(&v["case"].to_string(), 2000));
                    if l.violations.is_empty() {
                        println!("  no violation: the property holds on this case");
                    }
                    for viol in l.violations.values() {
                        println!("  VIOLATED signature={} :: {}", viol.signature, viol.detail);
                    }
                }
                verdicts.push(sigs);
            }
            if verdicts.iter().any(|s| *s != verdicts[0]) {
                println!("  NOTE: verdict differs between repetitions (hash-order dependence): {verdicts:?}");
            }
            if verdicts.iter().any(|s| !s.is_empty()) {
                println!("VIOLATION property={} replay={}", id, args[2]);
                1
            } else {
                0
            }
        }
        "child" => props::child(&args[2..]),
        _ => usage(),
    }
}

fn main() {
    let code = match std::panic::catch_unwind(real_main) {
        Ok(c) => c,
        Err(_) => {
            eprintln!("ENGINE-ERROR: harness panicked (this is a machinery failure, not a verdict)");
            2
        }
    };
    cleanup_scratch();
    std::process::exit(code);
}

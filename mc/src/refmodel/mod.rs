pub mod family;
pub mod msg;
pub mod poly;
pub mod inst;
pub mod lp;
pub mod qp;

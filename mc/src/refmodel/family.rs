//! Enumerators for function messages at representation level.

use super::msg::FnRep;
use crate::engine::{odometer, sequences};

pub const IDS3: [u64; 3] = [1, 2, 7];

/// All Linear messages with `0..=max_terms` terms, every ID sequence (repeats, any order).
pub fn gen_linear(ids: &[u64], coefs: &[f64], consts: &[f64], max_terms: usize) -> Vec<FnRep> {
    let mut out = vec![];
    for n in 0..=max_terms {
        let mut radix = vec![];
        for _ in 0..n {
            radix.push(ids.len());
            radix.push(coefs.len());
        }
        radix.push(consts.len());
        odometer(&radix, |d| {
            let terms = (0..n).map(|i| (ids[d[2 * i]], coefs[d[2 * i + 1]])).collect();
            out.push(FnRep::Lin {
                terms,
                c: consts[d[2 * n]],
            });
        });
    }
    out
}

pub type LinPart = Option<(Vec<(u64, f64)>, f64)>;

pub fn lin_parts_std() -> Vec<LinPart> {
    vec![
        None,
        Some((vec![], 0.0)),
        Some((vec![(1, 1.0)], 0.0)),
        Some((vec![(7, 2.0)], -1.5)),
        Some((vec![(2, -0.5), (1, 1.0)], 2.0)),
        Some((vec![(2, 1.0), (2, 0.5)], 0.0)),
    ]
}

/// All Quadratic messages with `0..=max_entries` COO entries over all (row, col) pairs.
/// `allow_dup_pos = false` skips messages that list the same (row, col) position twice.
pub fn gen_quadratic(
    ids: &[u64],
    vals: &[f64],
    max_entries: usize,
    lin_parts: &[LinPart],
    allow_dup_pos: bool,
) -> Vec<FnRep> {
    let mut out = vec![];
    let pos: Vec<(u64, u64)> = ids
        .iter()
        .flat_map(|r| ids.iter().map(move |c| (*r, *c)))
        .collect();
    for n in 0..=max_entries {
        let mut radix = vec![];
        for _ in 0..n {
            radix.push(pos.len());
            radix.push(vals.len());
        }
        radix.push(lin_parts.len());
        odometer(&radix, |d| {
            let entries: Vec<(u64, u64, f64)> = (0..n)
                .map(|i| {
                    let p = pos[d[2 * i]];
                    (p.0, p.1, vals[d[2 * i + 1]])
                })
                .collect();
            if !allow_dup_pos {
                for i in 0..n {
                    for j in 0..i {
                        if entries[i].0 == entries[j].0 && entries[i].1 == entries[j].1 {
                            return;
                        }
                    }
                }
            }
            out.push(FnRep::Quad {
                entries,
                lin: lin_parts[d[2 * n]].clone(),
            });
        });
    }
    out
}

/// All ID sequences of length 0..=max_len over `ids` (unsorted, with repeats).
pub fn monomials(ids: &[u64], max_len: usize) -> Vec<Vec<u64>> {
    let mut out = vec![];
    for len in 0..=max_len {
        for s in sequences(ids.len(), len) {
            out.push(s.iter().map(|i| ids[*i]).collect());
        }
    }
    out
}

pub fn gen_polynomial(monos: &[Vec<u64>], coefs: &[f64], n_terms: usize) -> Vec<FnRep> {
    let mut out = vec![];
    let mut radix = vec![];
    for _ in 0..n_terms {
        radix.push(monos.len());
        radix.push(coefs.len());
    }
    if n_terms == 0 {
        out.push(FnRep::Poly { terms: vec![] });
        return out;
    }
    odometer(&radix, |d| {
        let terms = (0..n_terms)
            .map(|i| (monos[d[2 * i]].clone(), coefs[d[2 * i + 1]]))
            .collect();
        out.push(FnRep::Poly { terms });
    });
    out
}

/// A moderately sized family with every variant and every representation quirk; used by the
/// properties that need "some function" many times (C03, C04, C09, C10, ...).
pub fn family_medium() -> Vec<FnRep> {
    let mut out = vec![FnRep::Unset, FnRep::Const(0.0), FnRep::Const(-1.5), FnRep::Const(2.0)];
    out.extend(gen_linear(&IDS3, &[1.0, -0.5, 0.0], &[0.0, 2.0], 2));
    out.extend(gen_quadratic(
        &IDS3,
        &[1.0, -0.5],
        1,
        &lin_parts_std(),
        true,
    ));
    out.extend(gen_quadratic(&[1, 2], &[2.0, 0.0, -1.0], 2, &[None, Some((vec![(7, 1.0)], 0.5))], true));
    let monos = monomials(&IDS3, 3);
    out.extend(gen_polynomial(&monos, &[1.0, -0.5], 1));
    let few: Vec<Vec<u64>> = vec![
        vec![],
        vec![1],
        vec![7],
        vec![2, 1],
        vec![1, 2],
        vec![1, 1],
        vec![7, 1, 7],
        vec![2, 2, 2, 1],
        vec![1, 2, 7],
    ];
    out.extend(gen_polynomial(&few, &[1.0, -1.0, 0.0], 2));
    out.push(FnRep::Poly { terms: vec![(vec![], 2.0), (vec![1], 1.0), (vec![], -0.5), (vec![2, 1], 0.0)] });
    out.push(FnRep::Poly { terms: vec![(vec![], 1.0), (vec![], 2.0), (vec![], -0.5)] });
    out.push(FnRep::Quad { entries: vec![(1, 2, 0.0), (2, 2, 0.0)], lin: Some((vec![(1, 1.0), (2, 0.0)], 0.5)) });
    out
}

/// Small family (~60) for product enumerations inside instances.
pub fn family_small() -> Vec<FnRep> {
    vec![
        FnRep::Unset,
        FnRep::Const(0.0),
        FnRep::Const(-1.5),
        FnRep::Lin { terms: vec![], c: 2.0 },
        FnRep::Lin { terms: vec![(1, 1.0)], c: 0.0 },
        FnRep::Lin { terms: vec![(2, -0.5), (1, 2.0)], c: 1.0 },
        FnRep::Lin { terms: vec![(7, 1.0), (7, 1.0), (1, 0.0)], c: -1.0 },
        FnRep::Lin { terms: vec![(1, 1.0), (1, -1.0), (2, 1.0)], c: 0.0 },
        FnRep::Quad { entries: vec![(1, 2, 1.0)], lin: None },
        FnRep::Quad { entries: vec![(2, 1, -0.5), (1, 2, 2.0)], lin: Some((vec![(7, 1.0)], 0.5)) },
        FnRep::Quad { entries: vec![(7, 7, 2.0)], lin: Some((vec![], 0.0)) },
        FnRep::Quad { entries: vec![(1, 1, 1.0), (7, 2, -1.0), (1, 1, 0.5)], lin: Some((vec![(1, -1.0)], 0.0)) },
        FnRep::Quad { entries: vec![], lin: Some((vec![(2, 2.0)], -0.5)) },
        FnRep::Quad { entries: vec![(2, 7, 0.0)], lin: None },
        FnRep::Poly { terms: vec![] },
        FnRep::Poly { terms: vec![(vec![], 2.0)] },
        FnRep::Poly { terms: vec![(vec![2, 1], 1.0), (vec![1, 2], 0.5)] },
        FnRep::Poly { terms: vec![(vec![7, 1, 7], -0.5), (vec![1], 1.0), (vec![], -1.0)] },
        FnRep::Poly { terms: vec![(vec![1, 1, 2, 2], 1.0), (vec![7], 0.0)] },
        FnRep::Poly { terms: vec![(vec![1, 2, 7], 2.0), (vec![2], -1.0), (vec![2], 1.0)] },
        // constant split over several degree-0 monomials (wire-legal; helpers that read "the" constant must sum them)
        FnRep::Poly { terms: vec![(vec![], 2.0), (vec![1], 1.0), (vec![], -0.5)] },
        FnRep::Poly { terms: vec![(vec![], 1.0), (vec![], 2.0)] },
        FnRep::Quad { entries: vec![(1, 2, 0.0), (2, 2, 0.0)], lin: Some((vec![(1, 1.0), (2, 0.0)], 0.5)) },
    ]
}

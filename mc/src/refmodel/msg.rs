//! Abstract, serialisable descriptions of OMMX messages at *representation* level (so that a
//! case can be written to a replay file and rebuilt), builders producing the real `ommx::v1`
//! messages from them, and readers turning real messages into reference polynomials through
//! the public fields only.

use super::poly::{q_opt, Poly, Q};
use ommx::v1;
use serde::{Deserialize, Serialize};
use std::collections::{BTreeMap, BTreeSet, HashMap};

/// f64 that survives JSON even when infinite / NaN.
#[derive(Clone, Copy, Debug, PartialEq)]
pub struct X(pub f64);

impl Serialize for X {
    fn serialize<S: serde::Serializer>(&self, s: S) -> Result<S::Ok, S::Error> {
        if self.0.is_finite() {
            s.serialize_f64(self.0)
        } else if self.0.is_nan() {
            s.serialize_str("nan")
        } else if self.0 > 0.0 {
            s.serialize_str("inf")
        } else {
            s.serialize_str("-inf")
        }
    }
}

impl<'de> Deserialize<'de> for X {
    fn deserialize<D: serde::Deserializer<'de>>(d: D) -> Result<Self, D::Error> {
        let v = serde_json::Value::deserialize(d)?;
        match v {
            serde_json::Value::Number(n) => Ok(X(n.as_f64().unwrap_or(f64::NAN))),
            serde_json::Value::String(s) => Ok(X(match s.as_str() {
                "inf" => f64::INFINITY,
                "-inf" => f64::NEG_INFINITY,
                _ => f64::NAN,
            })),
            _ => Err(serde::de::Error::custom("bad X")),
        }
    }
}

#[derive(Clone, Debug, Serialize, Deserialize, PartialEq)]
pub enum FnRep {
    /// `Function { function: None }`
    Unset,
    Const(f64),
    Lin {
        terms: Vec<(u64, f64)>,
        c: f64,
    },
    Quad {
        /// (row, column, value)
        entries: Vec<(u64, u64, f64)>,
        lin: Option<(Vec<(u64, f64)>, f64)>,
    },
    Poly {
        terms: Vec<(Vec<u64>, f64)>,
    },
}

pub fn mk_linear(terms: &[(u64, f64)], c: f64) -> v1::Linear {
    let mut l = v1::Linear::default();
    l.terms = terms
        .iter()
        .map(|(id, co)| {
            let mut t = v1::linear::Term::default();
            t.id = *id;
            t.coefficient = *co;
            t
        })
        .collect();
    l.constant = c;
    l
}

pub fn mk_quadratic(entries: &[(u64, u64, f64)], lin: &Option<(Vec<(u64, f64)>, f64)>) -> v1::Quadratic {
    let mut qd = v1::Quadratic::default();
    qd.rows = entries.iter().map(|e| e.0).collect();
    qd.columns = entries.iter().map(|e| e.1).collect();
    qd.values = entries.iter().map(|e| e.2).collect();
    qd.linear = lin.as_ref().map(|(t, c)| mk_linear(t, *c));
    qd
}

pub fn mk_polynomial(terms: &[(Vec<u64>, f64)]) -> v1::Polynomial {
    let mut p = v1::Polynomial::default();
    p.terms = terms
        .iter()
        .map(|(ids, c)| {
            let mut m = v1::Monomial::default();
            m.ids = ids.clone();
            m.coefficient = *c;
            m
        })
        .collect();
    p
}

pub fn mk_function(f: v1::function::Function) -> v1::Function {
    let mut out = v1::Function::default();
    out.function = Some(f);
    out
}

impl FnRep {
    pub fn to_msg(&self) -> v1::Function {
        use v1::function::Function as FE;
        match self {
            FnRep::Unset => v1::Function::default(),
            FnRep::Const(c) => mk_function(FE::Constant(*c)),
            FnRep::Lin { terms, c } => mk_function(FE::Linear(mk_linear(terms, *c))),
            FnRep::Quad { entries, lin } => mk_function(FE::Quadratic(mk_quadratic(entries, lin))),
            FnRep::Poly { terms } => mk_function(FE::Polynomial(mk_polynomial(terms))),
        }
    }

    /// The polynomial represented (sum of all listed terms).
    pub fn poly(&self) -> Poly {
        poly_of_function(&self.to_msg()).expect("ENGINE: FnRep with non-finite coefficient")
    }

    /// All IDs occurring in the message, whatever their coefficient.
    pub fn occurring_ids(&self) -> BTreeSet<u64> {
        let mut s = BTreeSet::new();
        match self {
            FnRep::Unset | FnRep::Const(_) => {}
            FnRep::Lin { terms, .. } => s.extend(terms.iter().map(|t| t.0)),
            FnRep::Quad { entries, lin } => {
                for e in entries {
                    s.insert(e.0);
                    s.insert(e.1);
                }
                if let Some((t, _)) = lin {
                    s.extend(t.iter().map(|t| t.0));
                }
            }
            FnRep::Poly { terms } => {
                for (ids, _) in terms {
                    s.extend(ids.iter().cloned());
                }
            }
        }
        s
    }

    pub fn variant(&self) -> &'static str {
        match self {
            FnRep::Unset => "unset",
            FnRep::Const(_) => "constant",
            FnRep::Lin { .. } => "linear",
            FnRep::Quad { .. } => "quadratic",
            FnRep::Poly { .. } => "polynomial",
        }
    }

    pub fn n_terms(&self) -> usize {
        match self {
            FnRep::Unset | FnRep::Const(_) => 0,
            FnRep::Lin { terms, .. } => terms.len(),
            FnRep::Quad { entries, lin } => entries.len() + lin.as_ref().map_or(0, |l| l.0.len()),
            FnRep::Poly { terms } => terms.len(),
        }
    }
}

fn qq(x: f64, what: &str) -> Result<Q, String> {
    q_opt(x).ok_or_else(|| format!("non-finite coefficient {x} in {what}"))
}

pub fn poly_of_linear(l: &v1::Linear) -> Result<Poly, String> {
    let mut p = Poly::zero();
    for t in &l.terms {
        p.add_term(vec![t.id], qq(t.coefficient, "Linear.terms")?);
    }
    p.add_term(vec![], qq(l.constant, "Linear.constant")?);
    Ok(p)
}

pub fn poly_of_quadratic(qd: &v1::Quadratic) -> Result<Poly, String> {
    if qd.rows.len() != qd.columns.len() || qd.rows.len() != qd.values.len() {
        return Err(format!(
            "Quadratic with inconsistent lengths rows={} columns={} values={}",
            qd.rows.len(),
            qd.columns.len(),
            qd.values.len()
        ));
    }
    let mut p = match &qd.linear {
        Some(l) => poly_of_linear(l)?,
        None => Poly::zero(),
    };
    for i in 0..qd.rows.len() {
        p.add_term(vec![qd.rows[i], qd.columns[i]], qq(qd.values[i], "Quadratic.values")?);
    }
    Ok(p)
}

pub fn poly_of_polynomial(pl: &v1::Polynomial) -> Result<Poly, String> {
    let mut p = Poly::zero();
    for m in &pl.terms {
        p.add_term(m.ids.clone(), qq(m.coefficient, "Polynomial.terms")?);
    }
    Ok(p)
}

pub fn poly_of_function(f: &v1::Function) -> Result<Poly, String> {
    use v1::function::Function as FE;
    match &f.function {
        None => Ok(Poly::zero()),
        Some(FE::Constant(c)) => Ok(Poly::constant(qq(*c, "Function.constant")?)),
        Some(FE::Linear(l)) => poly_of_linear(l),
        Some(FE::Quadratic(qd)) => poly_of_quadratic(qd),
        Some(FE::Polynomial(p)) => poly_of_polynomial(p),
        #[allow(unreachable_patterns)]
        Some(_) => panic!("ENGINE: ommx.v1.Function grew a new variant; the harness must be extended"),
    }
}

pub fn poly_of_opt_function(f: &Option<v1::Function>) -> Result<Poly, String> {
    match f {
        None => Ok(Poly::zero()),
        Some(f) => poly_of_function(f),
    }
}

/// IDs mentioned anywhere in a real function message (any coefficient).
pub fn ids_of_function(f: &v1::Function) -> BTreeSet<u64> {
    use v1::function::Function as FE;
    let mut s = BTreeSet::new();
    match &f.function {
        None | Some(FE::Constant(_)) => {}
        Some(FE::Linear(l)) => s.extend(l.terms.iter().map(|t| t.id)),
        Some(FE::Quadratic(qd)) => {
            s.extend(qd.rows.iter().cloned());
            s.extend(qd.columns.iter().cloned());
            if let Some(l) = &qd.linear {
                s.extend(l.terms.iter().map(|t| t.id));
            }
        }
        Some(FE::Polynomial(p)) => {
            for m in &p.terms {
                s.extend(m.ids.iter().cloned());
            }
        }
        #[allow(unreachable_patterns)]
        Some(_) => panic!("ENGINE: ommx.v1.Function grew a new variant"),
    }
    s
}

pub fn mk_state(entries: &[(u64, f64)]) -> v1::State {
    let mut s = v1::State::default();
    s.entries = entries.iter().cloned().collect();
    s
}

// ---------------------------------------------------------------------------------------------
// Instances
// ---------------------------------------------------------------------------------------------

pub const KIND_BINARY: i32 = 1;
pub const KIND_INTEGER: i32 = 2;
pub const KIND_CONTINUOUS: i32 = 3;
pub const EQ_ZERO: i32 = 1;
pub const LE_ZERO: i32 = 2;
pub const SENSE_MIN: i32 = 1;
pub const SENSE_MAX: i32 = 2;

#[derive(Clone, Debug, Serialize, Deserialize, PartialEq, Default)]
pub struct VarRep {
    pub id: u64,
    pub kind: i32,
    pub bound: Option<(X, X)>,
    pub substituted: Option<f64>,
    pub name: Option<String>,
    pub subscripts: Vec<i64>,
    pub parameters: Vec<(String, String)>,
    pub description: Option<String>,
}

impl VarRep {
    pub fn new(id: u64, kind: i32, bound: Option<(f64, f64)>) -> Self {
        VarRep {
            id,
            kind,
            bound: bound.map(|(l, u)| (X(l), X(u))),
            ..Default::default()
        }
    }
    pub fn to_msg(&self) -> v1::DecisionVariable {
        let mut v = v1::DecisionVariable::default();
        v.id = self.id;
        v.kind = self.kind;
        v.bound = self.bound.map(|(l, u)| {
            let mut b = v1::Bound::default();
            b.lower = l.0;
            b.upper = u.0;
            b
        });
        v.substituted_value = self.substituted;
        v.name = self.name.clone();
        v.subscripts = self.subscripts.clone();
        v.parameters = self.parameters.iter().cloned().collect();
        v.description = self.description.clone();
        v
    }
    /// Effective bound: given, or [0,1] for binaries, or unbounded.
    pub fn eff_bound(&self) -> (f64, f64) {
        match self.bound {
            Some((l, u)) => (l.0, u.0),
            None if self.kind == KIND_BINARY => (0.0, 1.0),
            None => (f64::NEG_INFINITY, f64::INFINITY),
        }
    }
}

#[derive(Clone, Debug, Serialize, Deserialize, PartialEq, Default)]
pub struct ConRep {
    pub id: u64,
    pub equality: i32,
    /// `None` = the `function` field is absent
    pub function: Option<FnRep>,
    pub name: Option<String>,
    pub subscripts: Vec<i64>,
    pub parameters: Vec<(String, String)>,
    pub description: Option<String>,
}

impl ConRep {
    pub fn new(id: u64, equality: i32, function: Option<FnRep>) -> Self {
        ConRep {
            id,
            equality,
            function,
            ..Default::default()
        }
    }
    pub fn with_meta(mut self, tag: &str) -> Self {
        self.name = Some(format!("name-{tag}"));
        self.subscripts = vec![self.id as i64, -1];
        self.parameters = vec![("k".to_string(), format!("v-{tag}"))];
        self.description = Some(format!("desc-{tag}"));
        self
    }
    pub fn to_msg(&self) -> v1::Constraint {
        let mut c = v1::Constraint::default();
        c.id = self.id;
        c.equality = self.equality;
        c.function = self.function.as_ref().map(|f| f.to_msg());
        c.name = self.name.clone();
        c.subscripts = self.subscripts.clone();
        c.parameters = self.parameters.iter().cloned().collect();
        c.description = self.description.clone();
        c
    }
    pub fn poly(&self) -> Poly {
        self.function.as_ref().map_or_else(Poly::zero, |f| f.poly())
    }
}

#[derive(Clone, Debug, Serialize, Deserialize, PartialEq, Default)]
pub struct RemRep {
    pub constraint: ConRep,
    pub reason: String,
    pub parameters: Vec<(String, String)>,
}

impl RemRep {
    pub fn to_msg(&self) -> v1::RemovedConstraint {
        let mut r = v1::RemovedConstraint::default();
        r.constraint = Some(self.constraint.to_msg());
        r.removed_reason = self.reason.clone();
        r.removed_reason_parameters = self.parameters.iter().cloned().collect();
        r
    }
}

#[derive(Clone, Debug, Serialize, Deserialize, PartialEq, Default)]
pub struct InstRep {
    pub sense: i32,
    /// `None` = the `objective` field is absent
    pub objective: Option<FnRep>,
    pub vars: Vec<VarRep>,
    pub constraints: Vec<ConRep>,
    pub removed: Vec<RemRep>,
    pub dependencies: Vec<(u64, FnRep)>,
    pub one_hot: Vec<(u64, Vec<u64>)>,
    pub sos1: Vec<(u64, Vec<u64>, Vec<u64>)>,
    pub hints_present: bool,
    pub description_name: Option<String>,
    pub parameters: Option<Vec<(u64, f64)>>,
}

pub fn mk_hints(one_hot: &[(u64, Vec<u64>)], sos1: &[(u64, Vec<u64>, Vec<u64>)]) -> v1::ConstraintHints {
    let mut h = v1::ConstraintHints::default();
    h.one_hot_constraints = one_hot
        .iter()
        .map(|(c, vs)| {
            let mut o = v1::OneHot::default();
            o.constraint_id = *c;
            o.decision_variables = vs.clone();
            o
        })
        .collect();
    h.sos1_constraints = sos1
        .iter()
        .map(|(b, ms, vs)| {
            let mut s = v1::Sos1::default();
            s.binary_constraint_id = *b;
            s.big_m_constraint_ids = ms.clone();
            s.decision_variables = vs.clone();
            s
        })
        .collect();
    h
}

impl InstRep {
    pub fn to_msg(&self) -> v1::Instance {
        let mut i = v1::Instance::default();
        i.sense = self.sense;
        i.objective = self.objective.as_ref().map(|f| f.to_msg());
        i.decision_variables = self.vars.iter().map(|v| v.to_msg()).collect();
        i.constraints = self.constraints.iter().map(|c| c.to_msg()).collect();
        i.removed_constraints = self.removed.iter().map(|c| c.to_msg()).collect();
        i.decision_variable_dependency = self
            .dependencies
            .iter()
            .map(|(id, f)| (*id, f.to_msg()))
            .collect::<HashMap<_, _>>();
        if self.hints_present || !self.one_hot.is_empty() || !self.sos1.is_empty() {
            i.constraint_hints = Some(mk_hints(&self.one_hot, &self.sos1));
        }
        if let Some(n) = &self.description_name {
            let mut d = v1::instance::Description::default();
            d.name = Some(n.clone());
            i.description = Some(d);
        }
        if let Some(p) = &self.parameters {
            let mut ps = v1::Parameters::default();
            ps.entries = p.iter().cloned().collect();
            i.parameters = Some(ps);
        }
        i
    }
    pub fn objective_poly(&self) -> Poly {
        self.objective.as_ref().map_or_else(Poly::zero, |f| f.poly())
    }
    pub fn var(&self, id: u64) -> Option<&VarRep> {
        self.vars.iter().find(|v| v.id == id)
    }
}

/// Canonical, comparable view of a real constraint message (function as polynomial).
#[derive(Clone, Debug, PartialEq, Eq)]
pub struct ConView {
    pub id: u64,
    pub equality: i32,
    pub poly: Poly,
    pub name: Option<String>,
    pub subscripts: Vec<i64>,
    pub parameters: BTreeMap<String, String>,
    pub description: Option<String>,
}

pub fn con_view(c: &v1::Constraint) -> Result<ConView, String> {
    Ok(ConView {
        id: c.id,
        equality: c.equality,
        poly: poly_of_opt_function(&c.function)?,
        name: c.name.clone(),
        subscripts: c.subscripts.clone(),
        parameters: c.parameters.iter().map(|(k, v)| (k.clone(), v.clone())).collect(),
        description: c.description.clone(),
    })
}

pub fn con_view_rep(c: &ConRep) -> ConView {
    ConView {
        id: c.id,
        equality: c.equality,
        poly: c.poly(),
        name: c.name.clone(),
        subscripts: c.subscripts.clone(),
        parameters: c.parameters.iter().cloned().collect(),
        description: c.description.clone(),
    }
}

/// Canonical view of a whole instance message: every function as a polynomial, collections in
/// message order (callers sort when order is not part of the property).
#[derive(Clone, Debug, PartialEq)]
pub struct InstView {
    pub sense: i32,
    pub objective: Poly,
    pub constraints: Vec<ConView>,
    pub removed: Vec<(ConView, String, BTreeMap<String, String>)>,
    pub dependencies: BTreeMap<u64, Poly>,
    pub vars: Vec<v1::DecisionVariable>,
}

pub fn removed_view(r: &v1::RemovedConstraint) -> Result<(ConView, String, BTreeMap<String, String>), String> {
    let c = r.constraint.as_ref().ok_or_else(|| "RemovedConstraint without constraint".to_string())?;
    Ok((
        con_view(c)?,
        r.removed_reason.clone(),
        r.removed_reason_parameters.iter().map(|(k, v)| (k.clone(), v.clone())).collect(),
    ))
}

pub fn inst_view(i: &v1::Instance) -> Result<InstView, String> {
    Ok(InstView {
        sense: i.sense,
        objective: poly_of_opt_function(&i.objective)?,
        constraints: i.constraints.iter().map(con_view).collect::<Result<_, _>>()?,
        removed: i.removed_constraints.iter().map(removed_view).collect::<Result<_, _>>()?,
        dependencies: i
            .decision_variable_dependency
            .iter()
            .map(|(k, f)| Ok((*k, poly_of_function(f)?)))
            .collect::<Result<_, String>>()?,
        vars: i.decision_variables.clone(),
    })
}

pub fn inst_view_rep(i: &InstRep) -> InstView {
    InstView {
        sense: i.sense,
        objective: i.objective_poly(),
        constraints: i.constraints.iter().map(con_view_rep).collect(),
        removed: i
            .removed
            .iter()
            .map(|r| (con_view_rep(&r.constraint), r.reason.clone(), r.parameters.iter().cloned().collect()))
            .collect(),
        dependencies: i.dependencies.iter().map(|(k, f)| (*k, f.poly())).collect(),
        vars: i.vars.iter().map(|v| v.to_msg()).collect(),
    }
}

/// IDs mentioned anywhere in the functions of a real instance message.
pub fn ids_in_instance(i: &v1::Instance) -> BTreeSet<u64> {
    let mut s = BTreeSet::new();
    if let Some(f) = &i.objective {
        s.extend(ids_of_function(f));
    }
    for c in &i.constraints {
        if let Some(f) = &c.function {
            s.extend(ids_of_function(f));
        }
    }
    for r in &i.removed_constraints {
        if let Some(f) = r.constraint.as_ref().and_then(|c| c.function.as_ref()) {
            s.extend(ids_of_function(f));
        }
    }
    for f in i.decision_variable_dependency.values() {
        s.extend(ids_of_function(f));
    }
    s
}

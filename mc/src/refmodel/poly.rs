//! Reference polynomial arithmetic in exact rationals. Independent of all SDK code.

use num::{BigInt, BigRational, One, Signed, Zero};
use std::collections::{BTreeMap, BTreeSet};

pub type Q = BigRational;

/// Exact rational value of a finite f64.
pub fn q(x: f64) -> Q {
    BigRational::from_float(x).unwrap_or_else(|| panic!("ENGINE: non-finite value {x} given to q()"))
}

pub fn qi(n: i64) -> Q {
    BigRational::from_integer(BigInt::from(n))
}

pub fn qr(n: i64, d: i64) -> Q {
    BigRational::new(BigInt::from(n), BigInt::from(d))
}

/// `Some(exact value)` for finite floats, `None` for NaN / infinities.
pub fn q_opt(x: f64) -> Option<Q> {
    BigRational::from_float(x)
}

pub fn q_to_f64(x: &Q) -> f64 {
    use num::ToPrimitive;
    x.to_f64().unwrap_or(f64::NAN)
}

pub fn qs(x: &Q) -> String {
    if x.is_integer() {
        format!("{}", x.numer())
    } else {
        format!("{}/{}", x.numer(), x.denom())
    }
}

pub type QState = BTreeMap<u64, Q>;

#[derive(Clone, PartialEq, Eq, Debug, Default, Hash)]
pub struct Poly(pub BTreeMap<Vec<u64>, Q>);

impl Poly {
    pub fn zero() -> Self {
        Poly(BTreeMap::new())
    }
    pub fn constant(c: Q) -> Self {
        let mut p = Poly::zero();
        p.add_term(vec![], c);
        p
    }
    pub fn cf(c: f64) -> Self {
        Poly::constant(q(c))
    }
    pub fn var(id: u64) -> Self {
        let mut p = Poly::zero();
        p.add_term(vec![id], Q::one());
        p
    }
    pub fn term(ids: &[u64], c: Q) -> Self {
        let mut p = Poly::zero();
        p.add_term(ids.to_vec(), c);
        p
    }
    pub fn add_term(&mut self, mut ids: Vec<u64>, c: Q) {
        if c.is_zero() {
            return;
        }
        ids.sort_unstable();
        let e = self.0.entry(ids.clone()).or_insert_with(Q::zero);
        *e += c;
        if e.is_zero() {
            self.0.remove(&ids);
        }
    }
    pub fn is_zero(&self) -> bool {
        self.0.is_empty()
    }
    pub fn add(&self, o: &Poly) -> Poly {
        let mut r = self.clone();
        for (k, v) in &o.0 {
            r.add_term(k.clone(), v.clone());
        }
        r
    }
    pub fn neg(&self) -> Poly {
        Poly(self.0.iter().map(|(k, v)| (k.clone(), -v.clone())).collect())
    }
    pub fn sub(&self, o: &Poly) -> Poly {
        self.add(&o.neg())
    }
    pub fn scale(&self, c: &Q) -> Poly {
        let mut r = Poly::zero();
        for (k, v) in &self.0 {
            r.add_term(k.clone(), v * c);
        }
        r
    }
    pub fn mul(&self, o: &Poly) -> Poly {
        let mut r = Poly::zero();
        for (k1, v1) in &self.0 {
            for (k2, v2) in &o.0 {
                let mut k = k1.clone();
                k.extend_from_slice(k2);
                r.add_term(k, v1 * v2);
            }
        }
        r
    }
    pub fn pow(&self, e: u32) -> Poly {
        let mut r = Poly::constant(Q::one());
        for _ in 0..e {
            r = r.mul(self);
        }
        r
    }
    pub fn vars(&self) -> BTreeSet<u64> {
        self.0.keys().flat_map(|k| k.iter().cloned()).collect()
    }
    pub fn degree(&self) -> usize {
        self.0.keys().map(|k| k.len()).max().unwrap_or(0)
    }
    /// Exact value; `None` if a variable with a non-zero coefficient has no value.
    pub fn eval(&self, st: &QState) -> Option<Q> {
        let mut s = Q::zero();
        for (k, v) in &self.0 {
            let mut t = v.clone();
            for id in k {
                t *= st.get(id)?;
            }
            s += t;
        }
        Some(s)
    }
    /// Fix the variables of `st`.
    pub fn partial(&self, st: &QState) -> Poly {
        let mut r = Poly::zero();
        for (k, v) in &self.0 {
            let mut t = v.clone();
            let mut rest = vec![];
            for id in k {
                match st.get(id) {
                    Some(x) => t *= x,
                    None => rest.push(*id),
                }
            }
            r.add_term(rest, t);
        }
        r
    }
    /// Simultaneous substitution.
    pub fn subst(&self, map: &BTreeMap<u64, Poly>) -> Poly {
        let mut r = Poly::zero();
        for (k, v) in &self.0 {
            let mut t = Poly::constant(v.clone());
            for id in k {
                match map.get(id) {
                    Some(p) => t = t.mul(p),
                    None => t = t.mul(&Poly::var(*id)),
                }
            }
            r = r.add(&t);
        }
        r
    }
    /// Σ |c_i · Π x_j| — the magnitude used in rounding bounds.
    pub fn abs_eval(&self, st: &QState) -> Option<Q> {
        let mut s = Q::zero();
        for (k, v) in &self.0 {
            let mut t = v.abs();
            for id in k {
                t *= st.get(id)?.abs();
            }
            s += t;
        }
        Some(s)
    }
    pub fn show(&self) -> String {
        if self.0.is_empty() {
            return "0".to_string();
        }
        self.0
            .iter()
            .map(|(k, v)| {
                if k.is_empty() {
                    qs(v)
                } else {
                    format!(
                        "{}*{}",
                        qs(v),
                        k.iter().map(|i| format!("x{i}")).collect::<Vec<_>>().join("*")
                    )
                }
            })
            .collect::<Vec<_>>()
            .join(" + ")
    }
}

pub fn qstate(entries: &[(u64, f64)]) -> QState {
    entries.iter().map(|(k, v)| (*k, q(*v))).collect()
}

//! Reference evaluator for instances (the "30-line evaluator" of DESIGN.md, plus the comparison
//! of a real `ommx.v1.Solution` against it).

use super::msg::*;
use super::poly::*;
use num::{Signed, Zero};
use ommx::v1;
use std::collections::{BTreeMap, BTreeSet};

#[derive(Clone, Debug)]
pub struct RefCon {
    pub id: u64,
    pub equality: i32,
    pub value: Q,
    /// Σ|c·Πx| over the canonical polynomial — used for rounding bounds
    pub magnitude: Q,
    pub n_terms: usize,
    pub used_ids: BTreeSet<u64>,
    pub name: Option<String>,
    pub subscripts: Vec<i64>,
    pub parameters: BTreeMap<String, String>,
    pub description: Option<String>,
    pub removed_reason: Option<String>,
    pub removed_parameters: BTreeMap<String, String>,
}

#[derive(Clone, Debug)]
pub struct RefSolution {
    pub objective: Q,
    pub objective_magnitude: Q,
    pub objective_terms: usize,
    pub constraints: Vec<RefCon>,
    pub state: BTreeMap<u64, Q>,
}

#[derive(Clone, Debug, PartialEq, Eq)]
pub enum RefErr {
    OutOfBound(u64),
    MissingUsed(u64),
    Dependency(String),
    /// within 1e-12 of the bound tolerance: the decision is not asserted
    TooClose(u64),
}

pub const BOUND_ATOL: f64 = 1e-7;
pub const FEAS_ATOL: f64 = 1e-6;

fn nearest_to_zero(l: f64, u: f64) -> f64 {
    if l >= 0.0 {
        l
    } else if u <= 0.0 {
        u
    } else {
        0.0
    }
}

/// Kahn-style evaluation of the dependency map; `Err` when cyclic or when a dependent reaches
/// an ID without value.
pub fn ref_dependencies(deps: &[(u64, Poly, BTreeSet<u64>)], st: &mut QState) -> Result<(), String> {
    let mut pending: Vec<usize> = (0..deps.len()).collect();
    loop {
        let before = pending.len();
        let mut rest = vec![];
        for i in pending {
            let (id, p, occ) = &deps[i];
            if occ.iter().all(|v| st.contains_key(v)) {
                let v = p.eval(st).ok_or_else(|| "unreachable".to_string())?;
                st.insert(*id, v);
            } else {
                rest.push(i);
            }
        }
        if rest.is_empty() {
            return Ok(());
        }
        if rest.len() == before {
            return Err(format!(
                "dependencies cannot be evaluated (cyclic or missing value): {:?}",
                rest.iter().map(|i| deps[*i].0).collect::<Vec<_>>()
            ));
        }
        pending = rest;
    }
}

pub fn ref_evaluate(inst: &InstRep, state: &[(u64, f64)]) -> Result<RefSolution, RefErr> {
    // 1. bound check on every given value of a defined variable
    for (id, v) in state {
        if let Some(var) = inst.var(*id) {
            let (l, u) = var.eff_bound();
            let lo_ok = l == f64::NEG_INFINITY || q(l) - q(BOUND_ATOL) <= q(*v);
            let hi_ok = u == f64::INFINITY || q(*v) <= q(u) + q(BOUND_ATOL);
            let close = |edge: f64, sign: f64| {
                edge.is_finite() && ((q(edge) + q(sign * BOUND_ATOL)) - q(*v)).abs() < qr(1, 1_000_000_000_000)
            };
            if close(l, -1.0) || close(u, 1.0) {
                return Err(RefErr::TooClose(*id));
            }
            if !(lo_ok && hi_ok) {
                return Err(RefErr::OutOfBound(*id));
            }
        }
    }
    let given = qstate(state);
    // 2. objective, constraints, removed constraints on the *given* state
    let need = |occ: &BTreeSet<u64>| -> Result<(), RefErr> {
        for id in occ {
            if !given.contains_key(id) {
                return Err(RefErr::MissingUsed(*id));
            }
        }
        Ok(())
    };
    let mut constraints = vec![];
    let mut mk = |c: &ConRep, removed: Option<&RemRep>| -> Result<RefCon, RefErr> {
        let occ = c.function.as_ref().map_or_else(BTreeSet::new, |f| f.occurring_ids());
        need(&occ)?;
        let p = c.poly();
        Ok(RefCon {
            id: c.id,
            equality: c.equality,
            value: p.eval(&given).unwrap(),
            magnitude: p.abs_eval(&given).unwrap(),
            n_terms: c.function.as_ref().map_or(0, |f| f.n_terms()),
            used_ids: occ,
            name: c.name.clone(),
            subscripts: c.subscripts.clone(),
            parameters: c.parameters.iter().cloned().collect(),
            description: c.description.clone(),
            removed_reason: removed.map(|r| r.reason.clone()),
            removed_parameters: removed.map_or_else(BTreeMap::new, |r| r.parameters.iter().cloned().collect()),
        })
    };
    // The SDK evaluates active constraints, then removed ones, then the objective; which missing
    // variable is reported first is not part of the property, so the order here is irrelevant.
    for c in &inst.constraints {
        constraints.push(mk(c, None)?);
    }
    for r in &inst.removed {
        constraints.push(mk(&r.constraint, Some(r))?);
    }
    let obj_occ = inst.objective.as_ref().map_or_else(BTreeSet::new, |f| f.occurring_ids());
    need(&obj_occ)?;
    let op = inst.objective_poly();
    let objective = op.eval(&given).unwrap();
    // 3. reported state
    let mut st = given.clone();
    for v in &inst.vars {
        if let Some(x) = v.substituted {
            st.insert(v.id, q(x));
        }
    }
    let deps: Vec<(u64, Poly, BTreeSet<u64>)> = inst
        .dependencies
        .iter()
        .map(|(id, f)| (*id, f.poly(), f.occurring_ids()))
        .collect();
    ref_dependencies(&deps, &mut st).map_err(RefErr::Dependency)?;
    for v in &inst.vars {
        if !st.contains_key(&v.id) {
            let (l, u) = v.eff_bound();
            st.insert(v.id, q(nearest_to_zero(l, u)));
        }
    }
    Ok(RefSolution {
        objective,
        objective_magnitude: op.abs_eval(&given).unwrap(),
        objective_terms: inst.objective.as_ref().map_or(0, |f| f.n_terms()),
        constraints,
        state: st,
    })
}

fn close_enough(got: f64, exact: &Q, magnitude: &Q, n_terms: usize, bit_exact: bool) -> bool {
    let Some(g) = q_opt(got) else { return false };
    if bit_exact {
        return &g == exact;
    }
    let n = 8 * (n_terms as i64 + 2) * 5;
    let u = qr(1, 1i64 << 53);
    let gamma = &(qi(n) * &u) / &(qi(1) - qi(n) * &u);
    (g - exact).abs() <= gamma * (magnitude + exact.abs())
}

pub fn feasible_by_rule(equality: i32, v: f64) -> Option<bool> {
    match equality {
        EQ_ZERO => Some(v.abs() < FEAS_ATOL),
        LE_ZERO => Some(v < FEAS_ATOL),
        _ => None,
    }
}

/// Compare a real Solution with the reference; returns (signature suffix, detail) per mismatch.
pub fn compare_solution(
    sol: &v1::Solution,
    exp: &RefSolution,
    inst: &InstRep,
    bit_exact: bool,
) -> Vec<(String, String)> {
    compare_solution_opts(sol, exp, inst, bit_exact, true)
}

/// `check_used = false` skips the per-constraint used-id lists (they legitimately shrink after
/// partial evaluation / substitution).
pub fn compare_solution_opts(
    sol: &v1::Solution,
    exp: &RefSolution,
    inst: &InstRep,
    bit_exact: bool,
    check_used: bool,
) -> Vec<(String, String)> {
    let mut out = vec![];
    if !close_enough(sol.objective, &exp.objective, &exp.objective_magnitude, exp.objective_terms, bit_exact) {
        out.push((
            "objective".to_string(),
            format!("Solution.objective = {}, exact = {}", sol.objective, qs(&exp.objective)),
        ));
    }
    // every constraint exactly once
    let got_ids: Vec<u64> = sol.evaluated_constraints.iter().map(|c| c.id).collect();
    let mut exp_ids: Vec<u64> = exp.constraints.iter().map(|c| c.id).collect();
    let mut got_sorted = got_ids.clone();
    got_sorted.sort_unstable();
    exp_ids.sort_unstable();
    if got_sorted != exp_ids {
        out.push((
            "constraint-list".to_string(),
            format!("evaluated_constraints ids = {got_ids:?}, expected each of {exp_ids:?} exactly once"),
        ));
    }
    let mut relaxed = true;
    let mut all = true;
    let mut flags_defined = true;
    for e in &exp.constraints {
        let Some(g) = sol.evaluated_constraints.iter().find(|c| c.id == e.id) else {
            continue;
        };
        let tag = if e.removed_reason.is_some() { "removed-constraint" } else { "constraint" };
        if !close_enough(g.evaluated_value, &e.value, &e.magnitude, e.n_terms, bit_exact) {
            out.push((
                format!("{tag}-value"),
                format!("constraint {} evaluated_value = {}, exact = {}", e.id, g.evaluated_value, qs(&e.value)),
            ));
        }
        if g.equality != e.equality {
            out.push((format!("{tag}-equality"), format!("constraint {} equality = {}, expected {}", e.id, g.equality, e.equality)));
        }
        let gp: BTreeMap<String, String> = g.parameters.iter().map(|(k, v)| (k.clone(), v.clone())).collect();
        if g.name != e.name || g.subscripts != e.subscripts || gp != e.parameters || g.description != e.description {
            out.push((
                format!("{tag}-metadata"),
                format!(
                    "constraint {} metadata = ({:?},{:?},{:?},{:?}), expected ({:?},{:?},{:?},{:?})",
                    e.id, g.name, g.subscripts, gp, g.description, e.name, e.subscripts, e.parameters, e.description
                ),
            ));
        }
        let grp: BTreeMap<String, String> = g.removed_reason_parameters.iter().map(|(k, v)| (k.clone(), v.clone())).collect();
        if g.removed_reason != e.removed_reason || grp != e.removed_parameters {
            out.push((
                format!("{tag}-removed-reason"),
                format!(
                    "constraint {} removed_reason = {:?} {:?}, expected {:?} {:?}",
                    e.id, g.removed_reason, grp, e.removed_reason, e.removed_parameters
                ),
            ));
        }
        let used: BTreeSet<u64> = g.used_decision_variable_ids.iter().cloned().collect();
        if check_used && (used != e.used_ids || used.len() != g.used_decision_variable_ids.len()) {
            out.push((
                format!("{tag}-used-ids"),
                format!("constraint {} used ids = {:?}, expected {:?}", e.id, g.used_decision_variable_ids, e.used_ids),
            ));
        }
        // Flags follow the tolerance rule applied to the *reported* value (itself verified above).
        match feasible_by_rule(e.equality, g.evaluated_value) {
            Some(ok) => {
                if !ok {
                    all = false;
                    if e.removed_reason.is_none() {
                        relaxed = false;
                    }
                }
            }
            None => flags_defined = false,
        }
    }
    if flags_defined && got_sorted == exp_ids {
        if sol.feasible_relaxed != Some(relaxed) {
            out.push((
                "feasible_relaxed".to_string(),
                format!("feasible_relaxed = {:?}, expected Some({relaxed}) (all active constraints within 1e-6)", sol.feasible_relaxed),
            ));
        }
        if sol.feasible != all {
            out.push((
                "feasible".to_string(),
                format!("feasible = {}, expected {all} (all active and removed constraints within 1e-6)", sol.feasible),
            ));
        }
    }
    // reported state
    match &sol.state {
        None => out.push(("state".to_string(), "Solution.state is absent".to_string())),
        Some(s) => {
            let got: BTreeMap<u64, f64> = s.entries.iter().map(|(k, v)| (*k, *v)).collect();
            let mut bad = vec![];
            for (id, v) in &exp.state {
                match got.get(id) {
                    Some(g) if bit_exact && q_opt(*g).as_ref() == Some(v) => {}
                    Some(g)
                        if !bit_exact
                            && q_opt(*g).is_some_and(|gq| (gq - v).abs() <= (v.abs() + qi(1)) * qr(1, 1_000_000_000)) => {}
                    other => bad.push(format!("x{id}: reported {other:?}, expected {}", qs(v))),
                }
            }
            for id in got.keys() {
                if !exp.state.contains_key(id) {
                    bad.push(format!("x{id}: reported but not expected"));
                }
            }
            if !bad.is_empty() {
                out.push(("state".to_string(), format!("reported state differs: {}", bad.join("; "))));
            }
        }
    }
    // decision variables carried over
    let exp_vars: Vec<v1::DecisionVariable> = inst.vars.iter().map(|v| v.to_msg()).collect();
    if sol.decision_variables != exp_vars {
        out.push((
            "decision-variables".to_string(),
            format!(
                "Solution.decision_variables ids = {:?} differ from the instance's {:?} (or their fields differ)",
                sol.decision_variables.iter().map(|v| v.id).collect::<Vec<_>>(),
                exp_vars.iter().map(|v| v.id).collect::<Vec<_>>()
            ),
        ));
    }
    out
}

pub fn state_zero() -> Q {
    Q::zero()
}

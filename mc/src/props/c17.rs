//! C17 — MPS files are read as the problem they describe.

use crate::engine::*;
use crate::refmodel::lp::*;
use crate::refmodel::msg::*;
use crate::refmodel::poly::*;
use ommx::v1;
use serde::{Deserialize, Serialize};
use serde_json::json;
use std::collections::BTreeMap;
use std::io::Write;

#[derive(Clone, Debug, Serialize, Deserialize)]
pub enum Case {
    Model {
        lp: Lp,
        layout: Layout,
        /// 0 = load_raw_reader, 1 = load_zipped_reader, 2 = load_file (gzip on disk, *.mps.gz), 3 = load_file_bytes + decode (*.mps), 4 = load_file (*.mps)
        reader: u8,
    },
    /// a complete file text that must be rejected
    Fault { what: String, text: String },
}

fn gz(text: &str) -> Vec<u8> {
    let mut e = flate2::write::GzEncoder::new(Vec::new(), flate2::Compression::new(1));
    e.write_all(text.as_bytes()).unwrap();
    e.finish().unwrap()
}

thread_local! {
    static SCRATCH: std::cell::RefCell<Option<Scratch>> = const { std::cell::RefCell::new(None) };
}

fn scratch_file(name: &str) -> std::path::PathBuf {
    SCRATCH.with(|s| {
        let mut s = s.borrow_mut();
        if s.is_none() {
            *s = Some(Scratch::new(&format!("c17-{:?}", std::thread::current().id()).replace(['(', ')'], "")));
        }
        s.as_ref().unwrap().path(name)
    })
}

fn load(text: &str, reader: u8) -> Result<Result<v1::Instance, String>, String> {
    match reader {
        0 => sdk(|| ommx::mps::load_raw_reader(text.as_bytes()).map_err(|e| format!("{e}"))),
        1 => {
            let z = gz(text);
            sdk(|| ommx::mps::load_zipped_reader(z.as_slice()).map_err(|e| format!("{e}")))
        }
        2 => {
            let p = scratch_file("in.mps.gz");
            std::fs::write(&p, gz(text)).expect("ENGINE: scratch write");
            sdk(|| ommx::mps::load_file(&p).map_err(|e| format!("{e}")))
        }
        3 => {
            // the bytes entry point (used by the Python binding): must decode to the instance;
            // the file name carries no .gz suffix (the content, not the name, says it is gzip)
            use ommx::Message;
            let p = scratch_file("in.mps");
            std::fs::write(&p, gz(text)).expect("ENGINE: scratch write");
            sdk(|| {
                let bytes = ommx::mps::load_file_bytes(&p).map_err(|e| format!("{e}"))?;
                v1::Instance::decode(bytes.as_slice()).map_err(|e| format!("load_file_bytes returned bytes that do not decode as an instance: {e}"))
            })
        }
        _ => {
            let p = scratch_file("model.mps");
            std::fs::write(&p, gz(text)).expect("ENGINE: scratch write");
            sdk(|| ommx::mps::load_file(&p).map_err(|e| format!("{e}")))
        }
    }
}

fn eff_domain(v: &v1::DecisionVariable) -> (bool, f64, f64) {
    let (mut l, mut u) = match &v.bound {
        Some(b) => (b.lower, b.upper),
        None => (f64::NEG_INFINITY, f64::INFINITY),
    };
    let integral = v.kind == KIND_BINARY || v.kind == KIND_INTEGER;
    if v.kind == KIND_BINARY {
        l = l.max(0.0);
        u = u.min(1.0);
    }
    (integral, l, u)
}

pub fn check_case(l: &mut Local, case: &Case) {
    l.evaluations += 1;
    l.transitions += 1;
    match case {
        Case::Fault { what, text } => {
            l.nontrivial += 1;
            l.outcome(what);
            for reader in [0u8, 1, 3] {
                match load(text, reader) {
                    Err(p) => l.violation(&format!("fault/{what}/panic"), || json!(case), format!("panicked instead of returning an error: {p}")),
                    Ok(Ok(_)) => l.violation(&format!("fault/{what}/accepted"), || json!(case), format!("malformed file ({what}) was loaded without error")),
                    Ok(Err(_)) => {}
                }
            }
        }
        Case::Model { lp, layout, reader } => {
            let text = lp.render(layout);
            let inst = match load(&text, *reader) {
                Err(p) => return l.violation("model/panic", || json!(case), format!("{p}\n{text}")),
                Ok(Err(e)) => return l.violation("model/well-formed-file-rejected", || json!(case), format!("{e}\n{text}")),
                Ok(Ok(i)) => i,
            };
            if !lp.rows.is_empty() {
                l.nontrivial += 1;
            }
            // --- variables by name / by recovered id
            let mut id_to_col: BTreeMap<u64, u64> = BTreeMap::new();
            for (j, c) in lp.cols.iter().enumerate() {
                // a column is identified by its name, or - when the reader recovered ids from
                // OMMX_VAR_<id> names and dropped the name - by that id
                let tid = tagged_id("OMMX_VAR_", &c.name);
                let found: Vec<&v1::DecisionVariable> = inst
                    .decision_variables
                    .iter()
                    .filter(|v| v.name.as_deref() == Some(c.name.as_str()) || (v.name.is_none() && tid == Some(v.id)))
                    .collect();
                if found.len() != 1 {
                    return l.violation(
                        "model/column-missing-or-duplicated",
                        || json!(case),
                        format!("column {} corresponds to {} decision variables (names {:?}, ids {:?})", c.name, found.len(), inst.decision_variables.iter().map(|v| v.name.clone()).collect::<Vec<_>>(), inst.decision_variables.iter().map(|v| v.id).collect::<Vec<_>>()),
                    );
                }
                id_to_col.insert(found[0].id, j as u64);
            }
            if inst.decision_variables.len() != lp.cols.len() || id_to_col.len() != lp.cols.len() {
                return l.violation("model/column-missing-or-duplicated", || json!(case), format!("{} decision variables for {} columns", inst.decision_variables.len(), lp.cols.len()));
            }
            let doms = lp.expected_domains();
            for v in &inst.decision_variables {
                let j = id_to_col[&v.id] as usize;
                let got = eff_domain(v);
                let want = doms[j];
                // the kind itself: binary is given by a BV bound, or (the SDK's documented convention)
                // by an integral column whose bounds are exactly [0, 1]; any other integral column is integer
                let has_bv = lp.cols[j].bounds.iter().any(|b| b.0 == "BV");
                if v.kind == KIND_BINARY && !has_bv && !(want.0 && want.1 == 0.0 && want.2 == 1.0) {
                    let spec: Vec<String> = lp.cols[j].bounds.iter().map(|b| b.0.clone()).collect();
                    l.violation(
                        &format!("model/kind/binary-reported-for/{}{}", if lp.cols[j].integer_marker { "int-" } else { "" }, if spec.is_empty() { "default".to_string() } else { spec.join("+") }),
                        || json!(case),
                        format!("column {} (integer marker {}, bounds {:?}) has no BV bound and its domain is not [0, 1], but it was read as a binary variable with bound {:?}", lp.cols[j].name, lp.cols[j].integer_marker, lp.cols[j].bounds, v.bound.as_ref().map(|b| (b.lower, b.upper))),
                    );
                }
                if got != want {
                    let spec: Vec<String> = lp.cols[j].bounds.iter().map(|b| b.0.clone()).collect();
                    l.violation(
                        &format!("model/domain/{}{}", if lp.cols[j].integer_marker { "int-" } else { "" }, if spec.is_empty() { "default".to_string() } else { spec.join("+") }),
                        || json!(case),
                        format!("column {} (integer marker {}, bounds {:?}): kind {} bound {:?} i.e. (integral, lower, upper) = {got:?}, expected {want:?}", lp.cols[j].name, lp.cols[j].integer_marker, lp.cols[j].bounds, v.kind, v.bound.as_ref().map(|b| (b.lower, b.upper))),
                    );
                }
            }
            // --- objective and sense
            let want_obj = lp.expected_objective();
            l.outcome(&(&want_obj, lp.expected_maximize()));
            match poly_of_opt_function(&inst.objective).ok().and_then(|p| rename_poly(&p, &id_to_col)) {
                None => l.violation("model/objective-unreadable", || json!(case), "objective uses unknown ids".into()),
                Some(got) => {
                    if got != want_obj {
                        let sig = if got.0.get(&vec![]) != want_obj.0.get(&vec![]) { "model/objective-constant" } else { "model/objective-coefficients" };
                        l.violation(sig, || json!(case), format!("objective {} , the file says {} (x<j> = column j; objective row '{}', RHS on it {:?})", got.show(), want_obj.show(), lp.obj_name, lp.obj_rhs));
                    }
                }
            }
            let want_sense = if lp.expected_maximize() { SENSE_MAX } else { SENSE_MIN };
            if inst.sense != want_sense {
                l.violation("model/sense", || json!(case), format!("sense {} expected {want_sense} ({:?})", inst.sense, lp.sense));
            }
            // --- constraints
            let want_rows = lp.expected_constraints();
            let mut got_all: Vec<(bool, Poly, Option<String>, u64)> = vec![];
            for c in &inst.constraints {
                let eq = match c.equality {
                    EQ_ZERO => true,
                    LE_ZERO => false,
                    other => return l.violation("model/constraint-equality-unspecified", || json!(case), format!("constraint {} has equality {other}", c.id)),
                };
                match poly_of_opt_function(&c.function).ok().and_then(|p| rename_poly(&p, &id_to_col)) {
                    Some(p) => got_all.push((eq, p, c.name.clone(), c.id)),
                    None => return l.violation("model/constraint-unreadable", || json!(case), "constraint uses unknown ids".into()),
                }
            }
            let ids: std::collections::BTreeSet<u64> = got_all.iter().map(|g| g.3).collect();
            if ids.len() != got_all.len() {
                l.violation("model/constraint-ids-not-unique", || json!(case), format!("constraint ids {:?}", got_all.iter().map(|g| g.3).collect::<Vec<_>>()));
            }
            let kind_of = |r: &Row| format!("{}{}", r.ty, match r.range { Some(x) if x > 0.0 => "+range", Some(_) => "-range", None => "" });
            let mut pool: Vec<Option<&(bool, Poly, Option<String>, u64)>> = got_all.iter().map(Some).collect();
            for (i, r) in lp.rows.iter().enumerate() {
                // the constraint carrying the row's own name (or its recovered id) must be one of the row's constraints
                let tid = tagged_id("OMMX_CONSTR_", &r.name);
                let named: Vec<&(bool, Poly, Option<String>, u64)> =
                    got_all.iter().filter(|g| g.2.as_deref() == Some(r.name.as_str()) || (g.2.is_none() && tid == Some(g.3))).collect();
                if !(named.len() == 1 && want_rows[i].iter().any(|(e, p)| *e == named[0].0 && *p == named[0].1)) {
                    l.violation(
                        &format!("model/constraint-of-row/{}", kind_of(r)),
                        || json!(case),
                        format!("row {} ({}): {} constraints carry its name / id; the row describes {:?}; constraints read: {:?}", r.name, kind_of(r), named.len(), want_rows[i].iter().map(|(e, p)| (*e, p.show())).collect::<Vec<_>>(), got_all.iter().map(|g| (g.0, g.1.show(), g.2.clone(), g.3)).collect::<Vec<_>>()),
                    );
                }
                // every constraint the row describes must be present (each read constraint is used once)
                for (e, p) in &want_rows[i] {
                    match pool.iter().position(|g| g.is_some_and(|g| g.0 == *e && g.1 == *p)) {
                        Some(k) => pool[k] = None,
                        None => l.violation(
                            &format!("model/constraint-missing/{}", kind_of(r)),
                            || json!(case),
                            format!("row {} ({}) describes the constraint ({}, {}) which was not read; constraints read: {:?}", r.name, kind_of(r), if *e { "= 0" } else { "<= 0" }, p.show(), got_all.iter().map(|g| (g.0, g.1.show())).collect::<Vec<_>>()),
                        ),
                    }
                }
            }
            let extra: Vec<(bool, String)> = pool.iter().flatten().map(|g| (g.0, g.1.show())).collect();
            if !extra.is_empty() {
                l.violation("model/constraint-not-in-file", || json!(case), format!("constraints {extra:?} were read but no row describes them"));
            }
            // description name
            let got_name = inst.description.as_ref().and_then(|d| d.name.clone());
            if lp.name.is_some() && got_name != lp.name {
                l.violation("model/problem-name", || json!(case), format!("name {got_name:?}, file says {:?}", lp.name));
            }
        }
    }
}

pub fn row_alphabet() -> Vec<(char, Option<f64>, Option<f64>)> {
    let mut v = vec![];
    for ty in ['E', 'L', 'G'] {
        for range in [None, Some(2.0), Some(-2.0)] {
            for rhs in [None, Some(4.0), Some(-3.0)] {
                v.push((ty, range, rhs));
            }
        }
    }
    v
}

pub fn bound_alphabet() -> Vec<Vec<(String, Option<f64>)>> {
    let b = |t: &str, v: Option<f64>| (t.to_string(), v);
    vec![
        vec![],
        vec![b("UP", Some(4.0))],
        vec![b("UP", Some(-2.0))],
        vec![b("LO", Some(1.0))],
        vec![b("LO", Some(-1.0)), b("UP", Some(5.0))],
        vec![b("FX", Some(2.0))],
        vec![b("MI", None)],
        vec![b("PL", None)],
        vec![b("FR", None)],
        vec![b("BV", None)],
        vec![b("LI", Some(-3.0))],
        vec![b("UI", Some(7.0))],
        vec![b("MI", None), b("UP", Some(4.0))],
        vec![b("LO", Some(0.0)), b("UP", Some(1.0))],
        vec![b("UP", Some(5.0)), b("LO", Some(-1.0))],
        vec![b("LI", Some(-3.0)), b("UI", Some(7.0))],
        vec![b("LO", Some(-10.0)), b("UP", Some(-2.0))],
        vec![b("UP", Some(-2.0)), b("LO", Some(-10.0))],
        vec![b("MI", None), b("UP", Some(-2.0))],
        vec![b("UP", Some(1e30))],
        // upper bound exactly 1 without the lower bound being 0: an integer column stays integer
        vec![b("FX", Some(1.0))],
        vec![b("LO", Some(1.0)), b("UP", Some(1.0))],
        vec![b("LO", Some(-1.0)), b("UP", Some(1.0))],
        vec![b("UP", Some(1.0))],
        vec![b("FX", Some(0.0))],
    ]
}

fn coef(i: usize, j: usize) -> f64 {
    [1.0, -2.0, 0.5, 3.0][(i * 2 + j) % 4]
}

struct Names {
    foreign_cols: bool,
    foreign_rows: bool,
    obj: &'static str,
    /// mixed: the LAST column / row gets a foreign name although the others are OMMX_-tagged
    /// (tag ids start at 0 so that order-based ids would collide with recovered ones)
    mixed: bool,
}

fn make_lp(rows: &[(char, Option<f64>, Option<f64>)], cols: &[(bool, Vec<(String, Option<f64>)>)], obj_rhs: Option<f64>, sense: SenseSpec, names: &Names, sparsity: usize) -> Lp {
    let row_ids: [u64; 5] = if names.mixed { [0, 1, 2, 3, 4] } else { [3, 40, 5, 12, 7] };
    let col_ids: [u64; 6] = if names.mixed { [0, 1, 2, 3, 4, 5] } else { [5, 1, 12, 2, 9, 30] };
    let nrows = rows.len();
    let ncols = cols.len();
    let row_names_f = ["LIM1", "R_2", "ROWC", "r4", "E5"];
    let col_names_f = ["X1", "YTWO", "z3", "W_4", "V5", "U6"];
    Lp {
        name: if sparsity % 2 == 0 { Some("TESTPROB".into()) } else { None },
        obj_name: names.obj.to_string(),
        obj_rhs,
        sense,
        rows: rows
            .iter()
            .enumerate()
            .map(|(i, (ty, range, rhs))| Row {
                name: if names.foreign_rows || (names.mixed && nrows >= 2 && i + 1 == nrows) { row_names_f[i].to_string() } else { format!("OMMX_CONSTR_{}", row_ids[i]) },
                ty: *ty,
                rhs: *rhs,
                range: *range,
            })
            .collect(),
        cols: cols
            .iter()
            .enumerate()
            .map(|(j, (int, bounds))| {
                // sparsity pattern: 0 = dense; 1 = column 0 only in the objective; 2 = no objective entry for column 0;
                // 3 = explicit zero objective coefficient and first row empty
                let mut entries: Vec<(usize, f64)> = (0..rows.len()).map(|i| (i, coef(i, j))).collect();
                let mut obj = Some([2.0, -1.0, 0.5][j % 3]);
                match sparsity {
                    1 if j == 0 => entries.clear(),
                    2 if j == 0 && !rows.is_empty() => obj = None,
                    3 => {
                        entries.retain(|(i, _)| *i != 0);
                        if j == 0 {
                            obj = Some(0.0);
                        }
                    }
                    _ => {}
                }
                Col {
                    name: if names.foreign_cols || (names.mixed && ncols >= 2 && j + 1 == ncols) { col_names_f[j].to_string() } else { format!("OMMX_VAR_{}", col_ids[j]) },
                    integer_marker: *int,
                    bounds: bounds.clone(),
                    obj,
                    entries,
                }
            })
            .collect(),
    }
}

fn layouts() -> Vec<Layout> {
    let mut v = vec![];
    for five_fields in [false, true] {
        for comments in [false, true] {
            for wide in [false, true] {
                v.push(Layout { five_fields, comments, blank_lines: comments != wide, wide });
            }
        }
    }
    v
}

const SENSES: [SenseSpec; 5] = [SenseSpec::Absent, SenseSpec::InlineMax, SenseSpec::InlineMin, SenseSpec::TwoLineMax, SenseSpec::TwoLineMin];

fn name_styles() -> Vec<Names> {
    vec![
        Names { foreign_cols: true, foreign_rows: true, obj: "COST", mixed: false },
        Names { foreign_cols: false, foreign_rows: false, obj: "OBJ", mixed: false },
        Names { foreign_cols: true, foreign_rows: false, obj: "OBJ", mixed: false },
        Names { foreign_cols: false, foreign_rows: true, obj: "obj_row", mixed: false },
        Names { foreign_cols: false, foreign_rows: false, obj: "OBJ", mixed: true },
    ]
}

fn fault_cases() -> Vec<Case> {
    let base = make_lp(
        &[('E', None, Some(4.0)), ('L', Some(2.0), None), ('G', None, Some(-3.0))],
        &[(false, vec![("UP".into(), Some(4.0))]), (true, vec![("LO".into(), Some(1.0))]), (false, vec![])],
        Some(5.0),
        SenseSpec::InlineMax,
        &Names { foreign_cols: true, foreign_rows: true, obj: "COST", mixed: false },
        0,
    );
    let text = base.render(&Layout { five_fields: false, comments: false, blank_lines: false, wide: false });
    let lines: Vec<&str> = text.lines().collect();
    let mut out = vec![];
    let section_of = |idx: usize| -> &str {
        let mut cur = "";
        for l in &lines[..=idx] {
            if !l.starts_with(' ') && !l.starts_with('*') {
                cur = l.split_whitespace().next().unwrap_or("");
            }
        }
        cur
    };
    let mut push = |what: &str, new_lines: Vec<String>| {
        out.push(Case::Fault { what: what.to_string(), text: new_lines.join("\n") + "\n" });
    };
    for (i, line) in lines.iter().enumerate() {
        if !line.starts_with(' ') {
            continue;
        }
        let sec = section_of(i);
        let f: Vec<&str> = line.split_whitespace().collect();
        let replace = |fields: Vec<String>| -> Vec<String> {
            let mut v: Vec<String> = lines.iter().map(|s| s.to_string()).collect();
            v[i] = format!(" {}", fields.join("  "));
            v
        };
        let with = |k: usize, s: &str| -> Vec<String> {
            let mut g: Vec<String> = f.iter().map(|s| s.to_string()).collect();
            g[k] = s.to_string();
            g
        };
        match sec {
            "ROWS" => {
                if f[0] != "N" {
                    push("unknown-row-type", replace(with(0, "X")));
                    push("unknown-row-type", replace(with(0, "EQ")));
                }
            }
            "COLUMNS" => {
                if f[1] == "'MARKER'" {
                    push("bad-marker-keyword", replace(with(2, "'INTBEGIN'")));
                } else {
                    push("undeclared-row-in-columns", replace(with(1, "NOSUCHROW")));
                    push("unparsable-number-in-columns", replace(with(2, "1.2.3")));
                    push("unparsable-number-in-columns", replace(with(2, "abc")));
                }
            }
            "RHS" => {
                push("unparsable-number-in-rhs", replace(with(2, "4,5")));
            }
            "RANGES" => {
                push("undeclared-row-in-ranges", replace(with(1, "NOSUCHROW")));
                push("unparsable-number-in-ranges", replace(with(2, "two")));
            }
            "BOUNDS" => {
                push("unknown-bound-type", replace(with(0, "XX")));
                push("unknown-bound-type", replace(with(0, "UPPER")));
                if f.len() == 4 {
                    push("unparsable-number-in-bounds", replace(with(3, "--4")));
                }
            }
            _ => {}
        }
    }
    // OBJSENSE word, inline and on its own line
    let mut v: Vec<String> = lines.iter().map(|s| s.to_string()).collect();
    let pos = v.iter().position(|l| l.starts_with("OBJSENSE")).unwrap();
    v[pos] = "OBJSENSE MAXIMUM".into();
    push("bad-objsense-word", v.clone());
    v[pos] = "OBJSENSE".into();
    v.insert(pos + 1, "    BIGGEST".into());
    push("bad-objsense-word", v);
    out
}

pub fn run(ctx: &Ctx) -> Finish {
    // the full 2x2 product takes ~20 s, so both tiers run it
    let t = true;
    let rows = row_alphabet();
    let bounds = bound_alphabet();
    let cols: Vec<(bool, Vec<(String, Option<f64>)>)> = [false, true].iter().flat_map(|m| bounds.iter().map(move |b| (*m, b.clone()))).collect();
    let lays = layouts();
    let styles = name_styles();
    ctx.note("alphabet", json!({"row_specs": rows.len(), "column_specs": cols.len(), "layouts": lays.len(), "name_styles": styles.len(), "senses": SENSES.len(), "readers": 5}));
    // 1. one row x one column: full product with every layout, sense, name style, reader, objective constant, sparsity
    let n1 = rows.len() * cols.len();
    ctx.par(n1, |l, i| {
        let r = rows[i % rows.len()];
        let c = &cols[i / rows.len()];
        for (si, st) in styles.iter().enumerate() {
            for obj_rhs in [None, Some(5.0)] {
                for (li, lay) in lays.iter().enumerate() {
                    for (ki, sense) in SENSES.iter().enumerate() {
                        // readers and sparsity rotate over the (layout, sense) grid: each value meets each row/column spec
                        let reader = ((li + ki + si) % 5) as u8;
                        if reader >= 2 && ctx.tier != Tier::Thorough && (i + li + ki) % 3 != 0 {
                            continue;
                        }
                        let sparsity = (li + 2 * ki + si) % 4;
                        l.states += 1;
                        let case = Case::Model { lp: make_lp(&[r], std::slice::from_ref(c), obj_rhs, *sense, st, sparsity), layout: *lay, reader };
                        if (li == 3 && ki == 1 && si == 0 && ctx.want_sample(i as u64)) || (i == 0 && li == 0 && ki == 0 && si == 0) {
                            l.samples.push((i as u64, json!(case)));
                        }
                        check_case(l, &case);
                    }
                }
            }
        }
    });
    // 0 rows / several columns and 0 columns handled through sparsity and the pair enumeration below
    // 2. two rows x two columns
    if t {
        let n2 = rows.len() * rows.len();
        ctx.par(n2, |l, i| {
            let r = [rows[i % rows.len()], rows[i / rows.len()]];
            for (a, ca) in cols.iter().enumerate() {
                for (b, cb) in cols.iter().enumerate() {
                    let k = i + a * 7 + b * 13;
                    l.states += 1;
                    let lp = make_lp(&r, &[ca.clone(), cb.clone()], if k % 2 == 0 { Some(5.0) } else { None }, SENSES[k % 5], &styles[k % styles.len()], k % 4);
                    check_case(l, &Case::Model { lp, layout: lays[k % lays.len()], reader: (k % 2) as u8 });
                }
            }
        });
    } else {
        // quick: all row pairs with two fixed columns, all column pairs with two fixed rows
        let n2 = rows.len() * rows.len();
        ctx.par(n2, |l, i| {
            let r = [rows[i % rows.len()], rows[i / rows.len()]];
            l.states += 1;
            let lp = make_lp(&r, &[cols[1].clone(), cols[cols.len() - 3].clone()], if i % 2 == 0 { Some(5.0) } else { None }, SENSES[i % 5], &styles[i % styles.len()], i % 4);
            check_case(l, &Case::Model { lp, layout: lays[i % lays.len()], reader: (i % 2) as u8 });
        });
        let n3 = cols.len() * cols.len();
        ctx.par(n3, |l, i| {
            let c = [cols[i % cols.len()].clone(), cols[i / cols.len()].clone()];
            l.states += 1;
            let lp = make_lp(&[rows[4], rows[20]], &c, if i % 2 == 0 { Some(5.0) } else { None }, SENSES[i % 5], &styles[i % styles.len()], i % 4);
            check_case(l, &Case::Model { lp, layout: lays[i % lays.len()], reader: (i % 2) as u8 });
        });
    }
    // 3. a fixed 5-row x 6-column model using every row and bound type, in every layout / sense / style / reader
    ctx.seq(|l| {
        let r5 = [rows[1], rows[13], rows[20], rows[5], rows[24]];
        let c6: Vec<(bool, Vec<(String, Option<f64>)>)> = vec![cols[1].clone(), cols[8].clone(), cols[9].clone(), cols[bounds.len() + 10].clone(), cols[bounds.len() + 4].clone(), cols[12].clone()];
        for st in &styles {
            for lay in &lays {
                for sense in SENSES {
                    for reader in 0..5u8 {
                        for sparsity in 0..4 {
                            l.states += 1;
                            check_case(l, &Case::Model { lp: make_lp(&r5, &c6, Some(5.0), sense, st, sparsity), layout: *lay, reader });
                        }
                    }
                }
            }
        }
        // no rows at all, several columns
        for st in &styles {
            check_case(l, &Case::Model { lp: make_lp(&[], &c6[..3], None, SenseSpec::Absent, st, 0), layout: lays[0], reader: 0 });
        }
    });
    // 4. error alphabet
    let faults = fault_cases();
    ctx.note("fault_files", json!(faults.len()));
    ctx.seq(|l| {
        for f in &faults {
            l.states += 1;
            check_case(l, f);
        }
    });
    ctx.assume("Residual un-owned nondeterminism: HashSet/HashMap order inside the MPS parser (id assignment for foreign names, term order); comparison is by name and as polynomials, so a correct result cannot depend on it.");
    ctx.assume("Outside the alphabet because the property does not fix their meaning: UP 0 without LO, RANGES value 0, a second N row, RHS on an undeclared row, OMMX_VAR_x names that do not parse as ids, negative UI without lower bound.");
    Finish {
        level: "model_checking",
        rule: "abstract LP/MIP models rendered by the harness's own free-format MPS writer and loaded by the real readers: full product of 27 row specs (E/L/G x range none/+/- x rhs none/+/-) x 50 column specs (integer marker x 25 bound specs incl. UP, negative UP, LO, LO+UP in both orders, FX, MI, PL, FR, BV, LI, UI, MI+UP, LI+UI, upper bound exactly 1 with lower bound 0 / 1 / -1 / absent, FX 0 and 1) for one row and one column under every layout (3/5-field lines, comments, blank lines, wide separators), sense form, name style, objective constant and reader (raw, zipped, load_file on *.mps.gz and *.mps, load_file_bytes + decode; the file-based ones on a third of the grid in quick); two rows x two columns (full product in thorough); a fixed 5x6 model under all layouts; expected instance computed from the abstract model and compared by name (binary kind only for BV columns or integral [0,1] columns); fault files for every error keyword at every applicable position; non-trivial = model has rows / fault case".into(),
        bounds: json!({"rows_max": 5, "cols_max": 6, "full_product": if t { "1x1 and 2x2" } else { "1x1; 2x2 pairwise" }, "file_based_readers": if ctx.tier == Tier::Thorough { "every grid point they rotate onto" } else { "a third of those grid points" }}),
        exhaustive: ctx.tier == Tier::Thorough,
    }
}

pub fn replay(l: &mut Local, case: &serde_json::Value) -> Result<(), String> {
    let c: Case = serde_json::from_value(case.clone()).map_err(|e| e.to_string())?;
    check_case(l, &c);
    Ok(())
}

//! C15 — sense-aware operations select the right optimum.

use crate::engine::*;
use crate::refmodel::family::*;
use crate::refmodel::msg::*;
use crate::refmodel::poly::*;
use ommx::{v1, Evaluate, Message};
use serde::{Deserialize, Serialize};
use serde_json::json;
use std::collections::BTreeSet;

#[derive(Clone, Debug, Serialize, Deserialize)]
pub enum Case {
    AsMin { objective: Option<FnRep>, sense: i32 },
    /// per sample: (objective value, class) with class 0 = infeasible, 1 = feasible for the remaining
    /// (active) constraints only, 2 = feasible for all constraints
    Best {
        samples: Vec<(X, u8)>,
        sense: i32,
        legacy: bool,
        /// how the relaxed constraint got into the removed list: 0 = listed as removed with reason
        /// "relaxed", 1 = listed as removed with the empty reason, 2 = a real `relax_constraint(id, "")`
        #[serde(default)]
        removed_how: u8,
        /// the layout of releases before the all-constraints flag existed: only tag 4 (feasibility for
        /// the constraints of the instance, all of them active then); only the id getters of the
        /// remaining-constraints sense are defined for it
        #[serde(default)]
        tag4_only: bool,
        /// store objectives and constraint values grouped by VALUE (SampledValues::from_iter), as a
        /// conforming writer may, instead of by state
        #[serde(default)]
        by_value: bool,
    },
}

fn asmin_instance(objective: &Option<FnRep>, sense: i32) -> InstRep {
    InstRep {
        sense,
        objective: objective.clone(),
        vars: vec![VarRep::new(1, KIND_CONTINUOUS, None), VarRep::new(2, KIND_INTEGER, Some((-2.0, 3.0))), VarRep::new(7, KIND_BINARY, None)],
        constraints: vec![ConRep::new(3, LE_ZERO, Some(FnRep::Lin { terms: vec![(1, 1.0), (2, 1.0)], c: -1.0 })).with_meta("c")],
        removed: vec![RemRep { constraint: ConRep::new(5, EQ_ZERO, Some(FnRep::Quad { entries: vec![(2, 1, 1.0)], lin: None })), reason: "r".into(), parameters: vec![] }],
        dependencies: vec![(7, FnRep::Lin { terms: vec![(1, 1.0)], c: 0.0 })],
        one_hot: vec![(3, vec![1, 2])],
        description_name: Some("d".into()),
        ..Default::default()
    }
}

const SAMPLE_IDS: [u64; 8] = [4, 0, 9, 1 << 33, 2, 17, 3, 100];

fn best_instance(sense: i32, removed_how: u8) -> Result<v1::Instance, String> {
    let relaxed = ConRep::new(1, LE_ZERO, Some(FnRep::Lin { terms: vec![(3, 1.0)], c: 0.0 }));
    if removed_how == 2 {
        let mut m = InstRep {
            sense,
            objective: Some(FnRep::Lin { terms: vec![(1, 1.0)], c: 0.0 }),
            vars: vec![VarRep::new(3, KIND_CONTINUOUS, None), VarRep::new(1, KIND_CONTINUOUS, None), VarRep::new(2, KIND_CONTINUOUS, None)],
            constraints: vec![ConRep::new(0, LE_ZERO, Some(FnRep::Lin { terms: vec![(2, 1.0)], c: 0.0 })), relaxed],
            ..Default::default()
        }
        .to_msg();
        return match sdk(|| m.relax_constraint(1, String::new(), Default::default()).map_err(|e| format!("{e:#}"))) {
            Ok(Ok(())) => Ok(m),
            Ok(Err(e)) | Err(e) => Err(e),
        };
    }
    Ok(InstRep {
        sense,
        objective: Some(FnRep::Lin { terms: vec![(1, 1.0)], c: 0.0 }),
        vars: vec![VarRep::new(3, KIND_CONTINUOUS, None), VarRep::new(1, KIND_CONTINUOUS, None), VarRep::new(2, KIND_CONTINUOUS, None)],
        constraints: vec![ConRep::new(0, LE_ZERO, Some(FnRep::Lin { terms: vec![(2, 1.0)], c: 0.0 }))],
        removed: vec![RemRep { constraint: relaxed, reason: if removed_how == 0 { "relaxed".into() } else { String::new() }, parameters: vec![] }],
        ..Default::default()
    }
    .to_msg())
}

#[allow(deprecated)]
fn to_legacy(ss: &v1::SampleSet) -> Result<v1::SampleSet, String> {
    // what releases before the feasible_relaxed field wrote: tag 4 = feasibility for the remaining
    // constraints, tag 6 = feasibility for all constraints, tag 7 absent
    let mut old = ss.clone();
    old.feasible = ss.feasible_relaxed.clone();
    old.feasible_unrelaxed = ss.feasible.clone();
    old.feasible_relaxed = Default::default();
    let bytes = old.encode_to_vec();
    v1::SampleSet::decode(bytes.as_slice()).map_err(|e| format!("cannot decode legacy sample set: {e}"))
}

pub fn check_case(l: &mut Local, case: &Case) {
    l.evaluations += 1;
    match case {
        Case::AsMin { objective, sense } => {
            let rep = asmin_instance(objective, *sense);
            let orig = rep.to_msg();
            let mut m = orig.clone();
            l.transitions += 2;
            if *sense == SENSE_MAX {
                l.nontrivial += 1;
            }
            if let Err(p) = sdk(|| m.as_minimization_problem()) {
                return l.violation("as-minimization/panic", || json!(case), p);
            }
            let f = rep.objective_poly();
            let want = if *sense == SENSE_MAX { f.neg() } else { f.clone() };
            l.outcome(&(&want, sense));
            match poly_of_opt_function(&m.objective) {
                Err(e) => return l.violation("as-minimization/unreadable", || json!(case), e),
                Ok(got) => {
                    if got != want {
                        l.violation(
                            "as-minimization/objective",
                            || json!(case),
                            format!("original sense {sense}, objective {}: converted objective is {}, expected {}", f.show(), got.show(), want.show()),
                        );
                    }
                }
            }
            if m.sense != SENSE_MIN {
                l.violation("as-minimization/sense", || json!(case), format!("sense after conversion = {}", m.sense));
            }
            let mut rest = m.clone();
            rest.objective = orig.objective.clone();
            rest.sense = orig.sense;
            if rest != orig {
                l.violation("as-minimization/other-fields-changed", || json!(case), "constraints, variables, hints, dependencies or description changed".into());
            }
            // idempotent
            let once = m.clone();
            if let Err(p) = sdk(|| m.as_minimization_problem()) {
                return l.violation("as-minimization/panic", || json!(case), p);
            }
            let (a, b) = (poly_of_opt_function(&m.objective), poly_of_opt_function(&once.objective));
            if a != b || m.sense != once.sense {
                l.violation("as-minimization/not-idempotent", || json!(case), format!("second conversion changed the objective: {a:?} vs {b:?}"));
            }
            // both problems rank all grid states identically
            let vals = [-1.0, 2.0];
            let mut pts: Vec<Vec<(u64, f64)>> = vec![];
            odometer(&[2, 2, 2], |d| pts.push(vec![(1, vals[d[0]]), (2, vals[d[1]]), (7, d[2] as f64)]));
            let ev = |i: &v1::Instance, x: &Vec<(u64, f64)>| i.objective().evaluate(&mk_state(x)).ok().map(|r| r.0);
            for x in &pts {
                for y in &pts {
                    let (Some(fx), Some(fy), Some(gx), Some(gy)) = (ev(&orig, x), ev(&orig, y), ev(&once, x), ev(&once, y)) else { continue };
                    let better_orig = if *sense == SENSE_MAX { fx > fy } else { fx < fy };
                    let better_min = gx < gy;
                    if better_orig != better_min {
                        l.violation("as-minimization/ranking", || json!(case), format!("states {x:?} and {y:?} are ranked differently by the original and the converted problem"));
                        return;
                    }
                }
            }
        }
        Case::Best { samples, sense, legacy, by_value, removed_how, tag4_only } => {
            let samples: Vec<(f64, u8)> = samples.iter().map(|s| (s.0 .0, s.1)).collect();
            let samples = &samples;
            let inst = match best_instance(*sense, *removed_how) {
                Ok(i) => i,
                Err(e) => return l.violation("best/relax_constraint-error", || json!(case), e),
            };
            let mut ss_in = v1::Samples::default();
            for (k, (obj, class)) in samples.iter().enumerate() {
                let st = mk_state(&[(1, *obj), (2, if *class == 0 { 1.0 } else { 0.0 }), (3, if *class == 2 { 0.0 } else { 1.0 })]);
                ss_in.add_sample(SAMPLE_IDS[k], st);
            }
            l.transitions += 1;
            let ss = match sdk(|| inst.evaluate_samples(&ss_in).map_err(|e| format!("{e:#}"))) {
                Ok(Ok((s, _))) => s,
                Ok(Err(e)) | Err(e) => return l.violation("best/evaluate_samples-error", || json!(case), e),
            };
            let mut ss = ss;
            if *by_value {
                if let Some(o) = ss.objectives.take() {
                    let pairs: Vec<(u64, f64)> = o.iter().map(|(i, v)| (*i, *v)).collect();
                    ss.objectives = Some(pairs.into_iter().collect());
                }
                for c in ss.constraints.iter_mut() {
                    if let Some(o) = c.evaluated_values.take() {
                        let pairs: Vec<(u64, f64)> = o.iter().map(|(i, v)| (*i, *v)).collect();
                        c.evaluated_values = Some(pairs.into_iter().collect());
                    }
                }
            }
            let ss = if *legacy {
                match to_legacy(&ss) {
                    Ok(s) => s,
                    Err(e) => return l.violation("best/legacy-decode", || json!(case), e),
                }
            } else {
                ss
            };
            #[allow(deprecated)]
            let ss = if *tag4_only {
                let mut old = ss.clone();
                old.feasible = if *legacy { ss.feasible.clone() } else { ss.feasible_relaxed.clone() };
                old.feasible_unrelaxed = Default::default();
                old.feasible_relaxed = Default::default();
                match v1::SampleSet::decode(old.encode_to_vec().as_slice()) {
                    Ok(s) => s,
                    Err(e) => return l.violation("best/legacy-decode", || json!(case), e.to_string()),
                }
            } else {
                ss
            };
            let tag = match (*legacy, *by_value) {
                (true, false) => "legacy",
                (false, false) => "current",
                (true, true) => "legacy+grouped-by-value",
                (false, true) => "current+grouped-by-value",
            };
            let tag = if *tag4_only { "tag4-only" } else { tag };
            let tag = match removed_how {
                0 => tag.to_string(),
                1 => format!("{tag}+empty-reason"),
                _ => format!("{tag}+relaxed-with-empty-reason"),
            };
            if samples.len() >= 2 {
                l.nontrivial += 1;
            }
            for (which, min_class) in [("remaining-constraints", 1u8), ("all-constraints", 2u8)] {
                if *tag4_only && min_class == 2 {
                    continue;
                }
                l.transitions += 1;
                let feasible: Vec<usize> = (0..samples.len()).filter(|k| samples[*k].1 >= min_class).collect();
                let want_ids: BTreeSet<u64> = feasible.iter().map(|k| SAMPLE_IDS[*k]).collect();
                let got_ids = if min_class == 1 { ss.feasible_ids() } else { ss.feasible_unrelaxed_ids() };
                if got_ids != want_ids {
                    l.violation(
                        &format!("best/{tag}/{which}/feasible-id-set"),
                        || json!(case),
                        format!("ids reported feasible for {which}: {got_ids:?}, expected {want_ids:?}"),
                    );
                }
                let r = sdk(|| if min_class == 1 { ss.best_feasible_id() } else { ss.best_feasible_unrelaxed_id() }.map_err(|e| format!("{e:#}")));
                let r = match r {
                    Err(p) => {
                        l.violation(&format!("best/{tag}/{which}/panic"), || json!(case), p);
                        continue;
                    }
                    Ok(r) => r,
                };
                l.outcome(&(feasible.len(), which, sense));
                if feasible.is_empty() {
                    if let Ok(id) = r {
                        l.violation(&format!("best/{tag}/{which}/selected-although-none-feasible"), || json!(case), format!("no sample is feasible for {which}, but id {id} was returned"));
                    }
                    continue;
                }
                let id = match r {
                    Err(e) => {
                        l.violation(&format!("best/{tag}/{which}/error-although-feasible-sample-exists"), || json!(case), format!("{} samples are feasible for {which}, but selection failed: {e}", feasible.len()));
                        continue;
                    }
                    Ok(id) => id,
                };
                let Some(k) = SAMPLE_IDS[..samples.len()].iter().position(|x| *x == id) else {
                    l.violation(&format!("best/{tag}/{which}/unknown-id"), || json!(case), format!("returned id {id} is not a submitted sample"));
                    continue;
                };
                if samples[k].1 < min_class {
                    l.violation(&format!("best/{tag}/{which}/selected-infeasible-sample"), || json!(case), format!("returned id {id} (sample {k}) is not feasible for {which}"));
                    continue;
                }
                let beaten = feasible.iter().any(|j| if *sense == SENSE_MAX { samples[*j].0 > samples[k].0 } else { samples[*j].0 < samples[k].0 });
                if beaten {
                    l.violation(
                        &format!("best/{tag}/{which}/not-optimal"),
                        || json!(case),
                        format!("returned id {id} with objective {} under sense {sense}, but another feasible sample is strictly better (samples {samples:?})", samples[k].0),
                    );
                }
                if *tag4_only {
                    continue; // the Solution getters need the all-constraints flag, which this layout lacks
                }
                // the Solution getters agree with the id getters
                let sol = sdk(|| if min_class == 1 { ss.best_feasible() } else { ss.best_feasible_unrelaxed() }.map_err(|e| format!("{e:#}")));
                match sol {
                    Ok(Ok(s)) => {
                        let class_ok = s.feasible_relaxed == Some(samples[k].1 >= 1) && s.feasible == (samples[k].1 >= 2);
                        let st_ok = s.state.as_ref().and_then(|st| st.entries.get(&1)).cloned() == Some(samples[k].0);
                        if s.objective != samples[k].0 || !class_ok || !st_ok {
                            l.violation(
                                &format!("best/{tag}/{which}/solution"),
                                || json!(case),
                                format!("best solution: objective {} feasible {} feasible_relaxed {:?}; selected sample {k} is {:?}", s.objective, s.feasible, s.feasible_relaxed, samples[k]),
                            );
                        }
                    }
                    Ok(Err(e)) | Err(e) => l.violation(&format!("best/{tag}/{which}/solution-error"), || json!(case), e),
                }
            }
        }
    }
}

pub fn run(ctx: &Ctx) -> Finish {
    let t = ctx.tier == Tier::Thorough;
    // (a) as_minimization_problem
    let mut objs: Vec<Option<FnRep>> = vec![None];
    objs.extend(family_medium().into_iter().filter(|f| *f != FnRep::Unset).map(Some));
    // coefficients below machine epsilon: negation is exact, they must survive the conversion
    let tiny = 2f64.powi(-60);
    objs.push(Some(FnRep::Lin { terms: vec![(1, tiny), (2, 1.0)], c: 0.0 }));
    objs.push(Some(FnRep::Lin { terms: vec![(2, -tiny)], c: tiny }));
    objs.push(Some(FnRep::Quad { entries: vec![(1, 2, tiny), (2, 2, 1.0)], lin: Some((vec![(1, -tiny)], 0.5)) }));
    objs.push(Some(FnRep::Poly { terms: vec![(vec![1, 2, 1], tiny), (vec![2], -tiny), (vec![], 1.0)] }));
    objs.push(Some(FnRep::Const(tiny)));
    ctx.note("objectives", json!(objs.len()));
    ctx.par(objs.len(), |l, i| {
        for sense in [SENSE_MIN, SENSE_MAX] {
            l.states += 1;
            let case = Case::AsMin { objective: objs[i].clone(), sense };
            if ctx.want_sample(i as u64) {
                l.samples.push((i as u64, json!(case)));
            }
            check_case(l, &case);
        }
    });
    // (b) best feasible sample
    let values = [-1.0, 2.0, 5.0];
    let kmax = ctx.tier.pick(6, 7);
    for k in 1..=kmax {
        let n = 9usize.pow(k as u32);
        ctx.par(n, |l, mut code| {
            let idx = code;
            let mut samples = vec![];
            for _ in 0..k {
                let d = code % 9;
                code /= 9;
                samples.push((X(values[d % 3]), (d / 3) as u8));
            }
            l.states += 1;
            for sense in [SENSE_MIN, SENSE_MAX] {
                for legacy in [false, true] {
                    let case = Case::Best { samples: samples.clone(), sense, legacy, by_value: false, removed_how: 0, tag4_only: false };
                    if k == 4 && legacy && ctx.want_sample((1 << 40) + idx as u64) {
                        l.samples.push(((1 << 40) + idx as u64, json!(case)));
                    }
                    check_case(l, &case);
                    if k <= 5 {
                        check_case(l, &Case::Best { samples: samples.clone(), sense, legacy, by_value: true, removed_how: 0, tag4_only: false });
                    }
                    if k <= 4 && !legacy {
                        check_case(l, &Case::Best { samples: samples.clone(), sense, legacy: false, by_value: false, removed_how: 0, tag4_only: true });
                    }
                    if k <= 4 {
                        // the relaxed constraint carries the empty reason (listed so / after a real relax_constraint)
                        for removed_how in [1u8, 2] {
                            check_case(l, &Case::Best { samples: samples.clone(), sense, legacy, by_value: false, removed_how, tag4_only: false });
                        }
                        // infinite objective values (an overflowing objective): still ordered, still selectable
                        let ext: Vec<(X, u8)> = samples.iter().map(|s| (X(if s.0 .0 == values[0] { f64::NEG_INFINITY } else if s.0 .0 == values[2] { f64::INFINITY } else { s.0 .0 }), s.1)).collect();
                        check_case(l, &Case::Best { samples: ext, sense, legacy, by_value: false, removed_how: 0, tag4_only: false });
                        // objective values closer together than machine epsilon are still different numbers
                        let tiny = 2f64.powi(-60);
                        let near: Vec<(X, u8)> = samples.iter().map(|s| (X(if s.0 .0 == values[0] { -tiny } else if s.0 .0 == values[2] { tiny } else { 0.0 }), s.1)).collect();
                        check_case(l, &Case::Best { samples: near, sense, legacy, by_value: false, removed_how: 0, tag4_only: false });
                    }
                }
            }
        });
    }
    if t {
        // k = 8 with two objective values
        let n = 6usize.pow(8);
        ctx.par(n, |l, mut code| {
            let mut samples = vec![];
            for _ in 0..8 {
                let d = code % 6;
                code /= 6;
                samples.push((X(values[1 + d % 2]), (d / 2) as u8));
            }
            l.states += 1;
            for sense in [SENSE_MIN, SENSE_MAX] {
                for legacy in [false, true] {
                    check_case(l, &Case::Best { samples: samples.clone(), sense, legacy, by_value: false, removed_how: 0, tag4_only: false });
                }
            }
        });
    } else {
        // k = 6..8 structured: all-infeasible, single feasible at each position, all tied
        ctx.seq(|l| {
            for k in 7..=8usize {
                for sense in [SENSE_MIN, SENSE_MAX] {
                    for legacy in [false, true] {
                        check_case(l, &Case::Best { samples: vec![(X(2.0), 0); k], sense, legacy, by_value: false, removed_how: 0, tag4_only: false });
                        check_case(l, &Case::Best { samples: vec![(X(2.0), 2); k], sense, legacy, by_value: true, removed_how: 0, tag4_only: false });
                        for pos in 0..k {
                            for class in [1u8, 2] {
                                let mut s: Vec<(X, u8)> = (0..k).map(|i| (X(values[i % 3]), 0)).collect();
                                s[pos].1 = class;
                                check_case(l, &Case::Best { samples: s, sense, legacy, by_value: pos % 2 == 0, removed_how: 0, tag4_only: false });
                                let mut s: Vec<(X, u8)> = (0..k).map(|i| (X(values[(i + pos) % 3]), 2)).collect();
                                s[pos] = (X(if sense == SENSE_MAX { 7.0 } else { -7.0 }), class);
                                check_case(l, &Case::Best { samples: s, sense, legacy, by_value: pos % 2 == 0, removed_how: 0, tag4_only: false });
                            }
                        }
                    }
                }
            }
        });
    }
    ctx.assume("Legacy sample sets are produced by encoding a message whose tag 4 holds remaining-constraint feasibility, tag 6 all-constraint feasibility and tag 7 is absent (what releases before feasible_relaxed wrote) and decoding it with prost; the wire tags themselves are C07's subject.");
    Finish {
        level: "model_checking",
        rule: "(a) every objective of the medium representation family x both senses through as_minimization_problem (once and twice): sense, objective == +-f as polynomials, all other fields untouched, idempotent, identical ranking of all pairs of grid states; (b) every sample set with k samples, each sample assigned one of 3 objective values (ties arise) and one of 3 feasibility classes, built by the real evaluate_samples, x both senses x {current, legacy} encodings (k <= 4 also with objective values -inf / +inf, with objective values -2^-60 / 0 / 2^-60, and with the relaxed constraint carrying the empty reason, listed so or after a real relax_constraint(id, \"\")): returned id is feasible in the requested sense and unbeaten under the set's sense, Err iff no sample is feasible, feasible id sets and best Solutions agree; non-trivial = maximisation instance / at least two samples".into(),
        bounds: json!({"k_full": kmax, "k8": if t { "two objective values, all classes" } else { "structured" }, "objective_values": values, "classes": ["infeasible","remaining-only","all"]}),
        exhaustive: true,
    }
}

pub fn replay(l: &mut Local, case: &serde_json::Value) -> Result<(), String> {
    let c: Case = serde_json::from_value(case.clone()).map_err(|e| e.to_string())?;
    check_case(l, &c);
    Ok(())
}

//! C18 — writing an instance as MPS and reading it back returns the same problem.

use crate::engine::*;
use crate::refmodel::msg::*;
use crate::refmodel::poly::*;
use ommx::v1;
use serde::{Deserialize, Serialize};
use serde_json::json;
use std::collections::{BTreeMap, BTreeSet};

#[derive(Clone, Debug, Serialize, Deserialize)]
pub struct Case {
    pub inst: InstRep,
    /// expect refusal: "" | "objective" | "constraint:<id>"
    pub nonlinear: String,
}

thread_local! {
    static SCRATCH: std::cell::RefCell<Option<Scratch>> = const { std::cell::RefCell::new(None) };
}

fn scratch_file(name: &str) -> std::path::PathBuf {
    SCRATCH.with(|s| {
        let mut s = s.borrow_mut();
        if s.is_none() {
            *s = Some(Scratch::new(&format!("c18-{:?}", std::thread::current().id()).replace(['(', ')'], "")));
        }
        s.as_ref().unwrap().path(name)
    })
}

fn eff_domain_rep(v: &VarRep) -> (bool, f64, f64) {
    let (l, u) = v.eff_bound();
    let integral = v.kind == KIND_BINARY || v.kind == KIND_INTEGER;
    let (l, u) = if v.kind == KIND_BINARY { (l.max(0.0), u.min(1.0)) } else { (l, u) };
    // the value domain of an integral variable is the set of integers inside the bound
    if integral {
        (integral, l.ceil(), u.floor())
    } else {
        (integral, l, u)
    }
}

fn eff_domain_msg(v: &v1::DecisionVariable) -> (bool, f64, f64) {
    let (mut l, mut u) = match &v.bound {
        Some(b) => (b.lower, b.upper),
        None => (f64::NEG_INFINITY, f64::INFINITY),
    };
    let integral = v.kind == KIND_BINARY || v.kind == KIND_INTEGER;
    if v.kind == KIND_BINARY {
        l = l.max(0.0);
        u = u.min(1.0);
    }
    if integral {
        (integral, l.ceil(), u.floor())
    } else {
        (integral, l, u)
    }
}

pub fn check_case(l: &mut Local, case: &Case) {
    l.evaluations += 1;
    l.transitions += 2;
    let msg = case.inst.to_msg();
    // the writer always gzips and the reader always gunzips, whatever the file is called
    let path = scratch_file(if msg.decision_variables.len() % 2 == 0 { "rt.mps.gz" } else { "rt.mps" });
    let _ = std::fs::remove_file(&path);
    let w = sdk(|| ommx::mps::write_file(&msg, &path).map_err(|e| (format!("{e}"), format!("{e:?}"))));
    let w = match w {
        Err(p) => return l.violation("write/panic", || json!(case), p),
        Ok(w) => w,
    };
    if !case.nonlinear.is_empty() {
        l.nontrivial += 1;
        l.outcome(&case.nonlinear);
        match w {
            Ok(()) => l.violation(&format!("write/nonlinear-{}-accepted", case.nonlinear.split(':').next().unwrap()), || json!(case), format!("write_file succeeded although the {} is nonlinear", case.nonlinear)),
            Err((_, dbg)) => {
                let ok = if case.nonlinear == "objective" {
                    dbg.contains("InvalidObjectiveType")
                } else {
                    let id = case.nonlinear.split(':').nth(1).unwrap_or("");
                    dbg.contains("InvalidConstraintType") && dbg.contains(&format!("OMMX_CONSTR_{id}\""))
                };
                if !ok {
                    l.violation(
                        &format!("write/error-does-not-name-offender/{}", case.nonlinear.split(':').next().unwrap()),
                        || json!(case),
                        format!("the {} is nonlinear, but the error is {dbg}", case.nonlinear),
                    );
                }
            }
        }
        return;
    }
    if let Err((e, _)) = w {
        return l.violation("write/linear-instance-rejected", || json!(case), format!("write_file failed on a linear instance: {e}"));
    }
    let back = match sdk(|| ommx::mps::load_file(&path).map_err(|e| format!("{e}"))) {
        Err(p) => return l.violation("read-back/panic", || json!(case), p),
        Ok(Err(e)) => return l.violation("read-back/error", || json!(case), format!("load_file failed on the written file: {e}")),
        Ok(Ok(b)) => b,
    };
    let want = inst_view_rep(&case.inst);
    l.outcome(&(&want.objective, want.constraints.len()));
    if !want.objective.is_zero() || !want.constraints.is_empty() {
        l.nontrivial += 1;
    }
    let got = match inst_view(&back) {
        Ok(g) => g,
        Err(e) => return l.violation("read-back/unreadable", || json!(case), e),
    };
    if got.sense != want.sense {
        l.violation("round-trip/sense", || json!(case), format!("sense {} -> {}", want.sense, got.sense));
    }
    if got.objective != want.objective {
        l.violation("round-trip/objective", || json!(case), format!("objective {} -> {}", want.objective.show(), got.objective.show()));
    }
    let wc: BTreeMap<u64, (i32, Poly)> = want.constraints.iter().map(|c| (c.id, (c.equality, c.poly.clone()))).collect();
    let gc: BTreeMap<u64, (i32, Poly)> = got.constraints.iter().map(|c| (c.id, (c.equality, c.poly.clone()))).collect();
    if gc.len() != got.constraints.len() {
        l.violation("round-trip/constraint-ids-repeat", || json!(case), format!("{:?}", got.constraints.iter().map(|c| c.id).collect::<Vec<_>>()));
    }
    if wc != gc {
        let show = |m: &BTreeMap<u64, (i32, Poly)>| m.iter().map(|(k, v)| (*k, v.0, v.1.show())).collect::<Vec<_>>();
        l.violation("round-trip/constraints", || json!(case), format!("constraints (id, equality, function) {:?} -> {:?}", show(&wc), show(&gc)));
    }
    // value domain of every variable the problem uses (non-zero coefficient somewhere)
    let mut used: BTreeSet<u64> = want.objective.vars();
    for c in &want.constraints {
        used.extend(c.poly.vars());
    }
    for id in used {
        let orig = case.inst.var(id).expect("ENGINE: used variable must be defined");
        let wd = eff_domain_rep(orig);
        match back.decision_variables.iter().filter(|v| v.id == id).collect::<Vec<_>>().as_slice() {
            [v] => {
                let gd = eff_domain_msg(v);
                if gd != wd {
                    let kind = match orig.kind {
                        KIND_BINARY => "binary",
                        KIND_INTEGER => "integer",
                        _ => "continuous",
                    };
                    let shape = match orig.bound {
                        None => "bound-absent".to_string(),
                        Some((a, b)) => format!("{}{}", if a.0.is_finite() { "finite" } else { "-inf" }, if b.0.is_finite() { ",finite" } else { ",+inf" }),
                    };
                    l.violation(
                        &format!("round-trip/domain/{kind}/{shape}"),
                        || json!(case),
                        format!("variable {id} ({kind}, bound {:?}): (integral, lower, upper) {wd:?} -> {gd:?} (read back kind {} bound {:?})", orig.bound.map(|b| (b.0 .0, b.1 .0)), v.kind, v.bound.as_ref().map(|b| (b.lower, b.upper))),
                    );
                }
            }
            other => l.violation("round-trip/variable-missing", || json!(case), format!("used variable {id} appears {} times after the round trip", other.len())),
        }
    }
}

fn var_specs() -> Vec<(i32, Option<(f64, f64)>)> {
    let inf = f64::INFINITY;
    // includes the shapes that interact with the MPS defaults: lower exactly 0, upper exactly 0, degenerate
    let bounds = [
        None,
        Some((0.0, 1.0)),
        Some((-3.0, 5.0)),
        Some((2.0, inf)),
        Some((-inf, 4.0)),
        Some((-inf, inf)),
        Some((-5.0, -1.0)),
        Some((0.0, 0.0)),
        Some((0.0, inf)),
        Some((-3.0, 0.0)),
        Some((-inf, 0.0)),
        Some((1.0, 1.0)),
        Some((-2.5e31, 1e30)),
    ];
    let mut v = vec![];
    for k in [KIND_CONTINUOUS, KIND_INTEGER] {
        for b in bounds {
            v.push((k, b));
        }
    }
    // fractional bounds on an integer variable: the admissible integers are ceil(l)..floor(u)
    v.push((KIND_INTEGER, Some((1.5, 7.0))));
    v.push((KIND_INTEGER, Some((-6.0, -2.5))));
    v.push((KIND_CONTINUOUS, Some((-6.5, 1.5))));
    v.push((KIND_BINARY, None));
    v.push((KIND_BINARY, Some((0.0, 1.0))));
    v.push((KIND_BINARY, Some((0.0, 0.0))));
    v.push((KIND_BINARY, Some((1.0, 1.0))));
    // LAST (left out of the three-variable product, see `run`): a bound whose ends need all 17 digits
    v.push((KIND_CONTINUOUS, Some((-(0.7 + 0.1), 1.1 * 1.1))));
    v
}

/// every function variant able to hold the linear function Σ terms + c
fn linear_variants(terms: &[(u64, f64)], c: f64) -> Vec<Option<FnRep>> {
    let mut v = vec![
        Some(FnRep::Lin { terms: terms.to_vec(), c }),
        Some(FnRep::Quad { entries: vec![], lin: Some((terms.to_vec(), c)) }),
        Some(FnRep::Poly {
            terms: terms.iter().map(|(i, x)| (vec![*i], *x)).chain(if c != 0.0 { Some((vec![], c)) } else { None }).collect(),
        }),
    ];
    if let Some((id, co)) = terms.first() {
        // wire-legal unnormalised representations: the first term listed twice (2c and -c), unsorted
        let mut split: Vec<(u64, f64)> = vec![(*id, 2.0 * co)];
        split.extend(terms.iter().skip(1).rev().cloned());
        split.push((*id, -co));
        v.push(Some(FnRep::Lin { terms: split.clone(), c }));
        v.push(Some(FnRep::Quad { entries: vec![], lin: Some((split.clone(), c)) }));
        v.push(Some(FnRep::Poly { terms: split.iter().map(|(i, x)| (vec![*i], *x)).chain([(vec![], c + 1.0), (vec![], -1.0)]).collect() }));
    }
    if terms.is_empty() {
        v.push(Some(FnRep::Const(c)));
        if c == 0.0 {
            v.push(None);
            // the zero function held in a Quadratic without linear part / in an empty Polynomial
            v.push(Some(FnRep::Quad { entries: vec![], lin: None }));
            v.push(Some(FnRep::Poly { terms: vec![] }));
        }
    }
    v
}

pub fn run(ctx: &Ctx) -> Finish {
    let t = ctx.tier == Tier::Thorough;
    let specs = var_specs();
    let ids = [4u64, 9, 1];
    let nv_max = ctx.tier.pick(2, 3);
    // objective / constraint linear forms over the first nv variables
    let forms = |nv: usize| -> Vec<(Vec<(u64, f64)>, f64)> {
        let mut f: Vec<(Vec<(u64, f64)>, f64)> = vec![(vec![], 0.0), (vec![], 2.5), (vec![(ids[0], 1.0)], 0.0), (vec![(ids[0], -2.0)], -1.5)];
        // doubles that need all 17 significant digits to be written without loss
        if nv <= 2 {
            f.push((vec![(ids[0], 0.1 + 0.2)], -(0.7 + 0.1)));
        }
        if nv >= 2 {
            f.push((vec![(ids[1], 0.5), (ids[0], 3.0)], 4.0));
            f.push((vec![(ids[1], 1.0)], 0.0));
            // a coefficient below machine epsilon is still a coefficient: written and read back
            f.push((vec![(ids[1], 2f64.powi(-60)), (ids[0], 1.0)], 0.0));
        }
        if nv >= 3 {
            f.push((vec![(ids[2], -1.0), (ids[0], 1.0), (ids[1], 2.0)], -2.0));
            f.push((vec![(ids[2], 1.0)], 1.0));
        }
        f
    };
    for nv in 1..=nv_max {
        let fs = forms(nv);
        // constraint lists: 0..2 constraints, ids {40, 3}
        let mut con_lists: Vec<Vec<(usize, i32)>> = vec![vec![]];
        for (a, _) in fs.iter().enumerate() {
            for eq in [EQ_ZERO, LE_ZERO] {
                con_lists.push(vec![(a, eq)]);
            }
        }
        for a in 0..fs.len() {
            for b in 0..fs.len() {
                if (a + b) % 2 == 0 || t {
                    con_lists.push(vec![(a, LE_ZERO), (b, EQ_ZERO)]);
                }
            }
        }
        let mut var_cfgs: Vec<Vec<usize>> = vec![];
        // the 17-digit spec and form are part of the one- and two-variable products only (the three-variable
        // product of the thorough tier already takes 10-19 min)
        let ns = if nv >= 3 { specs.len() - 1 } else { specs.len() };
        odometer(&vec![ns; nv], |d| var_cfgs.push(d.to_vec()));
        ctx.note(&format!("nv{nv}"), json!({"variable_configs": var_cfgs.len(), "objective_forms": fs.len(), "constraint_lists": con_lists.len()}));
        let n = var_cfgs.len() * fs.len();
        ctx.par(n, |l, i| {
            let vc = &var_cfgs[i % var_cfgs.len()];
            let (ot, oc) = &fs[i / var_cfgs.len()];
            // list order: rotate so that the maximum id is not last and order varies
            let mut vars: Vec<VarRep> = (0..nv).map(|k| VarRep::new(ids[k], specs[vc[k]].0, specs[vc[k]].1)).collect();
            vars.rotate_left(i % nv);
            if i % 2 == 1 {
                vars[0].name = Some("x".into());
                vars[0].subscripts = vec![1];
            }
            // an unused extra variable with the largest id, first in the list
            vars.insert(0, VarRep::new(20, KIND_CONTINUOUS, None));
            for (ci, cl) in con_lists.iter().enumerate() {
                let k = i + ci;
                let ovars = linear_variants(ot, *oc);
                let objective = ovars[k % ovars.len()].clone();
                let cons: Vec<ConRep> = cl
                    .iter()
                    .enumerate()
                    .map(|(j, (fi, eq))| {
                        let cv = linear_variants(&fs[*fi].0, fs[*fi].1);
                        let mut c = ConRep::new([40u64, 3][j], *eq, cv[(k + j) % cv.len()].clone());
                        if (k + j) % 3 == 0 {
                            // metadata must not leak into the ids recovered from the file
                            c.name = Some(["balance", "cap1"][j].to_string());
                            c.description = Some("a named constraint".into());
                        }
                        c
                    })
                    .collect();
                let inst = InstRep {
                    sense: if k % 2 == 0 { SENSE_MIN } else { SENSE_MAX },
                    objective,
                    vars: vars.clone(),
                    constraints: cons,
                    description_name: if k % 3 == 0 { Some("roundtrip".into()) } else { None },
                    ..Default::default()
                };
                l.states += 1;
                let case = Case { inst, nonlinear: String::new() };
                if ci == 3 && ctx.want_sample((nv * 10_000_000 + i) as u64) {
                    l.samples.push(((nv * 10_000_000 + i) as u64, json!(case)));
                }
                check_case(l, &case);
            }
        });
    }
    // one large instance (150 variables x 80 dense constraints with varied coefficients: several hundred KB
    // of text, far beyond any internal buffer of the compressor): nothing may be lost at the end of the file
    ctx.seq(|l| {
        let nv = 150u64;
        let co = |i: u64, j: u64| (((i * 7919 + j * 104729) % 9973) as f64 - 4986.0) / 8.0;
        let vars: Vec<VarRep> = (0..nv).map(|i| VarRep::new(i, if i % 3 == 0 { KIND_INTEGER } else { KIND_CONTINUOUS }, Some((-(i as f64) - 0.5, (i * 2) as f64 + 1.0)))).collect();
        let cons: Vec<ConRep> = (0..80u64)
            .map(|j| ConRep::new(j * 3 + 1, if j % 2 == 0 { LE_ZERO } else { EQ_ZERO }, Some(FnRep::Lin { terms: (0..nv).map(|i| (i, co(i, j + 1))).filter(|t| t.1 != 0.0).collect(), c: co(j, 200) })))
            .collect();
        let inst = InstRep {
            sense: SENSE_MAX,
            objective: Some(FnRep::Lin { terms: (0..nv).map(|i| (i, co(i, 0))).filter(|t| t.1 != 0.0).collect(), c: 2.5 }),
            vars,
            constraints: cons,
            ..Default::default()
        };
        l.states += 1;
        check_case(l, &Case { inst, nonlinear: String::new() });
    });
    // nonlinear objective / constraint must be refused with an error naming the offender
    ctx.seq(|l| {
        let nl: Vec<FnRep> = vec![
            FnRep::Quad { entries: vec![(4, 9, 1.0)], lin: None },
            FnRep::Quad { entries: vec![(4, 4, -2.0)], lin: Some((vec![(9, 1.0)], 1.0)) },
            FnRep::Poly { terms: vec![(vec![4, 9], 1.0)] },
            FnRep::Poly { terms: vec![(vec![4], 1.0), (vec![4, 4, 9], 0.5)] },
        ];
        let lin = FnRep::Lin { terms: vec![(4, 1.0), (9, 2.0)], c: 1.0 };
        let vars = vec![VarRep::new(9, KIND_CONTINUOUS, Some((0.0, 1.0))), VarRep::new(4, KIND_INTEGER, Some((0.0, 5.0)))];
        for f in &nl {
            check_case(l, &Case { inst: InstRep { sense: SENSE_MIN, objective: Some(f.clone()), vars: vars.clone(), constraints: vec![ConRep::new(3, LE_ZERO, Some(lin.clone()))], ..Default::default() }, nonlinear: "objective".into() });
            for (pos, id) in [(0usize, 40u64), (1, 3)] {
                let mut cons = vec![ConRep::new(40, LE_ZERO, Some(lin.clone())), ConRep::new(3, EQ_ZERO, Some(lin.clone()))];
                cons[pos].function = Some(f.clone());
                check_case(l, &Case { inst: InstRep { sense: SENSE_MAX, objective: Some(lin.clone()), vars: vars.clone(), constraints: cons, ..Default::default() }, nonlinear: format!("constraint:{id}") });
            }
        }
    });
    Finish {
        level: "model_checking",
        rule: "every linear instance of the product: 1..3 used variables (ids {4,9,1}, rotated list order, plus an unused variable with the largest id) each over the kind x bound specs (continuous/integer x {absent,[0,1],[-3,5],[2,inf),(-inf,4],(-inf,inf),[-5,-1],[0,0],[0,inf),[-3,0],(-inf,0],[1,1]}, binary x {absent,[0,1],[0,0],[1,1]}, for 1..2 variables a bound whose ends need 17 significant digits) x objective forms (absent, constant, linear +- constant, for 1..2 variables coefficient 0.1+0.2 with constant -(0.7+0.1)) x constraint lists (0..2, = / <=, constant-only included, ids {40,3}) with function variants rotating over every message type able to hold a linear function, both senses, name present/absent; written with mps::write_file and read with mps::load_file; oracle: same sense, objective and constraints equal as polynomials under the same ids, same effective value domain for every used variable; one 150-variable x 80-constraint instance (several hundred KB of MPS text); nonlinear objective / constraint refused with an error naming the offender; non-trivial = non-empty problem".into(),
        bounds: json!({"variables_max": nv_max, "kind_bound_specs": specs.len(), "constraints_max": 2}),
        exhaustive: t,
    }
}

pub fn replay(l: &mut Local, case: &serde_json::Value) -> Result<(), String> {
    let c: Case = serde_json::from_value(case.clone()).map_err(|e| e.to_string())?;
    check_case(l, &c);
    Ok(())
}

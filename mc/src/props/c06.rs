//! C06 — sample-set evaluation agrees with evaluating each sample alone.

use crate::engine::*;
use crate::refmodel::msg::*;
use ommx::{v1, Evaluate};
use serde::{Deserialize, Serialize};
use serde_json::json;
use std::collections::{BTreeMap, BTreeSet};

#[derive(Clone, Debug, Serialize, Deserialize)]
pub struct Case {
    pub inst: InstRep,
    pub pool: Vec<Vec<(u64, f64)>>,
    /// entries in message order: (index into pool, sample ids)
    pub entries: Vec<(usize, Vec<u64>)>,
    /// build through Samples::add_sample in this (id, pool index) order instead of directly
    pub via_add_sample: Option<Vec<(u64, usize)>>,
}

fn mk_samples(case: &Case) -> v1::Samples {
    let mut s = v1::Samples::default();
    match &case.via_add_sample {
        Some(seq) => {
            for (id, pi) in seq {
                s.add_sample(*id, mk_state(&case.pool[*pi]));
            }
        }
        None => {
            for (pi, ids) in &case.entries {
                let mut e = v1::samples::SamplesEntry::default();
                e.state = Some(mk_state(&case.pool[*pi]));
                e.ids = ids.clone();
                s.entries.push(e);
            }
        }
    }
    s
}

fn state_map(s: &Option<v1::State>) -> BTreeMap<u64, u64> {
    s.as_ref().map_or_else(BTreeMap::new, |s| s.entries.iter().map(|(k, v)| (*k, v.to_bits())).collect())
}

pub fn check_case(l: &mut Local, case: &Case) {
    l.evaluations += 1;
    let msg = case.inst.to_msg();
    let samples = match sdk(|| mk_samples(case)) {
        Ok(s) => s,
        Err(p) => return l.violation("add_sample/panic", || json!(case), p),
    };
    let assignment: BTreeMap<u64, usize> = match &case.via_add_sample {
        Some(seq) => seq.iter().cloned().collect(),
        None => case.entries.iter().flat_map(|(pi, ids)| ids.iter().map(move |i| (*i, *pi))).collect(),
    };
    let ids: BTreeSet<u64> = assignment.keys().cloned().collect();
    if assignment.len() >= 2 {
        l.nontrivial += 1;
    }
    if case.via_add_sample.is_some() {
        // the built message must list every id exactly once with its own state
        let mut seen = BTreeMap::new();
        for (id, st) in samples.iter() {
            *seen.entry(*id).or_insert(0usize) += 1;
            let want = mk_state(&case.pool[assignment[id]]);
            if *st != want {
                l.violation("add_sample/wrong-state", || json!(case), format!("sample {id} is stored with state {:?}, expected {:?}", st.entries, want.entries));
            }
        }
        if seen.keys().cloned().collect::<BTreeSet<_>>() != ids || seen.values().any(|c| *c != 1) {
            l.violation("add_sample/ids", || json!(case), format!("Samples lists ids {seen:?}, expected each of {ids:?} once"));
        }
    }
    l.transitions += 1;
    // A sample whose state the single-state path rejects (every pool state is in-bound, so the only
    // reason is a missing variable that the problem uses) has no solution to agree with: the set
    // evaluation must fail as well instead of inventing a value for it.
    let mut rejected_alone: Vec<u64> = vec![];
    for (id, pi) in &assignment {
        match sdk(|| msg.evaluate(&mk_state(&case.pool[*pi])).map(|_| ()).map_err(|e| format!("{e:#}"))) {
            Ok(Ok(())) => {}
            Ok(Err(_)) => rejected_alone.push(*id),
            Err(p) => panic!("ENGINE: Instance::evaluate panicked on a C06 pool state: {p}"),
        }
    }
    let r = sdk(|| msg.evaluate_samples(&samples).map_err(|e| format!("{e:#}")));
    if !rejected_alone.is_empty() {
        l.outcome(&("rejected", rejected_alone.len()));
        match r {
            Err(p) => l.violation("evaluate_samples/panic", || json!(case), p),
            Ok(Ok(_)) => l.violation(
                "evaluate_samples/accepted-state-that-evaluate-rejects",
                || json!(case),
                format!("Instance::evaluate rejects the states of samples {rejected_alone:?} (a used variable is missing), but evaluate_samples returned a sample set"),
            ),
            Ok(Err(_)) => {}
        }
        return;
    }
    let ss = match r {
        Err(p) => return l.violation("evaluate_samples/panic", || json!(case), p),
        Ok(Err(e)) => return l.violation("evaluate_samples/error", || json!(case), format!("evaluate_samples failed on valid samples: {e}")),
        Ok(Ok((ss, _))) => ss,
    };
    // tables keyed by exactly the submitted ids
    let obj_ids: Vec<u64> = ss.objectives.as_ref().map_or(vec![], |o| o.iter().map(|(i, _)| *i).collect());
    let obj_set: BTreeSet<u64> = obj_ids.iter().cloned().collect();
    if obj_set != ids || obj_ids.len() != ids.len() {
        l.violation("tables/objectives-keys", || json!(case), format!("objectives keyed by {obj_ids:?}, submitted ids {ids:?}"));
    }
    let fk: BTreeSet<u64> = ss.feasible.keys().cloned().collect();
    let frk: BTreeSet<u64> = ss.feasible_relaxed.keys().cloned().collect();
    if fk != ids || frk != ids {
        l.violation("tables/feasibility-keys", || json!(case), format!("feasible keyed by {fk:?}, feasible_relaxed by {frk:?}, submitted ids {ids:?}"));
    }
    for c in &ss.constraints {
        let ck: BTreeSet<u64> = c.evaluated_values.as_ref().map_or_else(BTreeSet::new, |v| v.iter().map(|(i, _)| *i).collect());
        let cf: BTreeSet<u64> = c.feasible.keys().cloned().collect();
        if ck != ids || cf != ids {
            l.violation("tables/constraint-keys", || json!(case), format!("constraint {} values keyed by {ck:?}, feasible by {cf:?}, submitted {ids:?}", c.id));
        }
    }
    // per-sample agreement with the single-state path
    for (id, pi) in &assignment {
        l.transitions += 2;
        let st = mk_state(&case.pool[*pi]);
        let alone = match sdk(|| msg.evaluate(&st).map_err(|e| format!("{e:#}"))) {
            Ok(Ok((s, _))) => s,
            Ok(Err(e)) => panic!("ENGINE: C06 pool state is not valid for Instance::evaluate: {e}"),
            Err(p) => panic!("ENGINE: Instance::evaluate panicked on a C06 pool state: {p}"),
        };
        l.outcome(&(alone.objective.to_bits(), alone.feasible, alone.feasible_relaxed));
        let got = match sdk(|| ss.get(*id).map_err(|e| format!("{e:#}"))) {
            Err(p) => {
                l.violation("get/panic", || json!(case), p);
                continue;
            }
            Ok(Err(e)) => {
                l.violation("get/error", || json!(case), format!("SampleSet::get({id}) failed: {e}; Instance::evaluate on that state succeeds"));
                continue;
            }
            Ok(Ok(s)) => s,
        };
        let mut diffs = vec![];
        if got.objective.to_bits() != alone.objective.to_bits() {
            diffs.push(("objective", format!("objective {} vs {}", got.objective, alone.objective)));
        }
        if got.feasible != alone.feasible {
            diffs.push(("feasible", format!("feasible {} vs {}", got.feasible, alone.feasible)));
        }
        if got.feasible_relaxed != alone.feasible_relaxed {
            diffs.push(("feasible_relaxed", format!("feasible_relaxed {:?} vs {:?}", got.feasible_relaxed, alone.feasible_relaxed)));
        }
        if got.evaluated_constraints != alone.evaluated_constraints {
            let brief = |v: &Vec<v1::EvaluatedConstraint>| v.iter().map(|c| (c.id, c.evaluated_value, c.equality, c.removed_reason.clone())).collect::<Vec<_>>();
            diffs.push(("constraints", format!("evaluated_constraints {:?} vs {:?} (or metadata / used ids differ)", brief(&got.evaluated_constraints), brief(&alone.evaluated_constraints))));
        }
        if got.decision_variables != alone.decision_variables {
            diffs.push(("decision-variables", "decision variable lists differ".to_string()));
        }
        if state_map(&got.state) != state_map(&alone.state) {
            diffs.push((
                "state",
                format!(
                    "reported state {:?} vs {:?}",
                    got.state.as_ref().map(|s| s.entries.iter().collect::<BTreeMap<_, _>>()),
                    alone.state.as_ref().map(|s| s.entries.iter().collect::<BTreeMap<_, _>>())
                ),
            ));
        }
        if diffs.is_empty() && got != alone {
            diffs.push(("other-field", format!("{got:?} vs {alone:?}")));
        }
        for (sig, d) in diffs {
            l.violation(&format!("get/{sig}"), || json!(case), format!("sample {id}: SampleSet::get vs Instance::evaluate: {d}"));
        }
    }
}

/// Ordered set partitions of `ids` (blocks in every order; ids inside a block ascending).
fn ordered_partitions(ids: &[u64]) -> Vec<Vec<Vec<u64>>> {
    fn rec(rest: &[u64], cur: &mut Vec<Vec<u64>>, out: &mut Vec<Vec<Vec<u64>>>) {
        if rest.is_empty() {
            // all orders of the blocks
            for p in permutations(cur.len()) {
                out.push(p.iter().map(|i| cur[*i].clone()).collect());
            }
            return;
        }
        let x = rest[0];
        for i in 0..cur.len() {
            cur[i].push(x);
            rec(&rest[1..], cur, out);
            cur[i].pop();
        }
        cur.push(vec![x]);
        rec(&rest[1..], cur, out);
        cur.pop();
    }
    let mut out = vec![];
    rec(ids, &mut vec![], &mut out);
    out
}

fn c_a_early() -> ConRep {
    ConRep::new(3, LE_ZERO, Some(FnRep::Lin { terms: vec![(2, 1.0)], c: 0.0 })).with_meta("a")
}
fn rem_early(c: ConRep) -> RemRep {
    RemRep { constraint: c, reason: "relaxed".into(), parameters: vec![("k".into(), "v".into())] }
}

fn instances(tier: Tier) -> Vec<(InstRep, Vec<Vec<(u64, f64)>>)> {
    let t = tier == Tier::Thorough;
    let inf = f64::INFINITY;
    let x7s: Vec<Option<(i32, Option<(f64, f64)>)>> = vec![
        Some((KIND_CONTINUOUS, Some((1.0, inf)))),
        Some((KIND_BINARY, None)),
        Some((KIND_CONTINUOUS, Some((-inf, -1.0)))),
        None,
    ];
    let objs = vec![
        Some(FnRep::Lin { terms: vec![(1, 1.0)], c: -0.5 }),
        Some(FnRep::Quad { entries: vec![(2, 2, 1.0)], lin: Some((vec![(1, 2.0)], 0.0)) }),
        None,
        // representation quirks: constant split over several degree-0 monomials, explicit zero entries,
        // a degree-0 polynomial, a quadratic whose quadratic part is all zeros
        Some(FnRep::Poly { terms: vec![(vec![], 2.0), (vec![1], 1.0), (vec![], -0.5), (vec![2, 1], 0.0)] }),
        Some(FnRep::Poly { terms: vec![(vec![], 1.0), (vec![], 2.0)] }),
        Some(FnRep::Quad { entries: vec![(1, 2, 0.0), (2, 2, 0.0)], lin: Some((vec![(1, 1.0), (2, 0.0)], 0.5)) }),
        // 40 terms over two ids
        Some(FnRep::Lin { terms: (0..40usize).map(|i| (1 + (i % 2) as u64, [1.0, -0.5, 2.0][i % 3])).collect(), c: 0.5 }),
    ];
    let c_a = ConRep::new(3, LE_ZERO, Some(FnRep::Lin { terms: vec![(2, 1.0)], c: 0.0 })).with_meta("a");
    let c_b = ConRep::new(7, EQ_ZERO, Some(FnRep::Quad { entries: vec![(1, 1, 1.0)], lin: Some((vec![], -4.0)) }));
    let c_c = ConRep::new(1, LE_ZERO, None);
    let rem = |c: ConRep| RemRep { constraint: c, reason: "relaxed".into(), parameters: vec![("k".into(), "v".into())] };
    // the empty string is a legal reason; the constraint is still a removed one
    let rem_empty = |c: ConRep| RemRep { constraint: c, reason: String::new(), parameters: vec![] };
    // constraint values exactly on / next to the feasibility tolerance, independent of the state
    let thr = |id: u64, eq: i32, c: f64| ConRep::new(id, eq, Some(FnRep::Const(c)));
    let thr_lin = |id: u64, eq: i32, c: f64| ConRep::new(id, eq, Some(FnRep::Poly { terms: vec![(vec![], c), (vec![1], 0.0)] }));
    let mut con_cfgs: Vec<(Vec<ConRep>, Vec<RemRep>)> = vec![
        (vec![thr(9, EQ_ZERO, 1e-6)], vec![]),
        (vec![thr(9, EQ_ZERO, -1e-6), c_a_early()], vec![]),
        (vec![], vec![rem_early(thr(9, EQ_ZERO, 1e-6))]),
        (vec![thr(9, LE_ZERO, 1e-6)], vec![rem_early(thr_lin(11, EQ_ZERO, -5e-7))]),
        (vec![thr_lin(9, EQ_ZERO, 5e-7)], vec![rem_early(thr(11, LE_ZERO, 1e-6))]),
    ];
    let base_cfgs: Vec<(Vec<ConRep>, Vec<RemRep>)> = vec![
        (vec![], vec![]),
        (vec![c_a.clone()], vec![]),
        (vec![c_a.clone(), c_b.clone()], vec![]),
        (vec![c_b.clone()], vec![rem(c_a.clone())]),
        (vec![], vec![rem(c_b.clone()), rem_empty(c_c.clone())]),
        (vec![c_c.clone(), c_a.clone()], vec![rem_empty(c_b.clone())]),
        // a polynomial constraint whose only monomial is x1*x2 (x2 occurs nowhere else); the last pool state has x1 = 0
        (vec![ConRep::new(12, LE_ZERO, Some(FnRep::Poly { terms: vec![(vec![1, 2], 1.0), (vec![], -1.0)] })).with_meta("p")], vec![rem(c_a.clone())]),
    ];
    con_cfgs.extend(base_cfgs);
    let mut out = vec![];
    for x7 in &x7s {
        for (oi, o) in objs.iter().enumerate() {
            for (ci, cc) in con_cfgs.iter().enumerate() {
                for prefixed in [false, true] {
                    for dep in [0u8, 1, 2] {
                        if !t && (oi + ci + usize::from(prefixed) + dep as usize) % 3 != 0 && x7.is_some() && ci > 6 {
                            continue;
                        }
                        let mut vars = vec![VarRep::new(1, KIND_CONTINUOUS, None), VarRep::new(2, KIND_INTEGER, Some((-2.0, 3.0)))];
                        if let Some((k, b)) = x7 {
                            vars.insert(1, VarRep::new(7, *k, *b));
                        }
                        if prefixed {
                            let mut v = VarRep::new(8, KIND_CONTINUOUS, None);
                            v.substituted = Some(1.5);
                            vars.push(v);
                            // two unused variables listed after the fixed one, never assigned by a state
                            vars.push(VarRep::new(20, KIND_CONTINUOUS, Some((2.0, 5.0))));
                            vars.push(VarRep::new(21, KIND_INTEGER, Some((-4.0, -1.0))));
                        }
                        let mut deps = vec![];
                        if dep >= 1 {
                            vars.push(VarRep::new(9, KIND_CONTINUOUS, None));
                            deps.push((9, FnRep::Lin { terms: vec![(1, 1.0), (2, 2.0)], c: 0.5 }));
                        }
                        if dep == 2 {
                            vars.push(VarRep::new(10, KIND_CONTINUOUS, None));
                            deps.push((10, FnRep::Lin { terms: vec![(9, 2.0)], c: 0.0 }));
                        }
                        let inst = InstRep {
                            sense: if ci % 2 == 0 { SENSE_MIN } else { SENSE_MAX },
                            objective: o.clone(),
                            vars,
                            constraints: cc.0.clone(),
                            removed: cc.1.clone(),
                            dependencies: deps,
                            ..Default::default()
                        };
                        // pool: s0; s1 omits the irrelevant variable; s2 differs from s0 only in the
                        // irrelevant variable (equal objective and constraint values); s3 = other values
                        let v7a = match x7 {
                            Some((_, Some((lo, _)))) if lo.is_finite() => Some(*lo + 1.0),
                            Some((_, Some((_, up)))) if up.is_finite() => Some(*up - 2.0),
                            Some(_) => Some(1.0),
                            None => None,
                        };
                        let v7b = match x7 {
                            Some((_, Some((lo, _)))) if lo.is_finite() => Some(*lo),
                            Some((_, Some((_, up)))) if up.is_finite() => Some(*up),
                            Some(_) => Some(0.0),
                            None => None,
                        };
                        let with7 = |mut s: Vec<(u64, f64)>, v: Option<f64>| {
                            if let Some(v) = v {
                                s.push((7, v));
                            }
                            s
                        };
                        // when a variable is pre-fixed, the last pool state carries a DIFFERENT value for it:
                        // the single-state path lets the fixed value win, and so must SampleSet::get
                        // ... and its value for variable 2 (bound [-2, 3]) lies 5e-8 beyond the bound: inside the
                        // 1e-7 tolerance with which the single-state path accepts values
                        let mut last = vec![(1, 0.0), (2, 3.0 + 5e-8)];
                        if prefixed {
                            last.push((8, 7.0));
                        }
                        let pool = vec![
                            with7(vec![(1, 2.0), (2, -1.0)], v7a),
                            vec![(1, 2.0), (2, -1.0)],
                            with7(vec![(1, 2.0), (2, -1.0)], v7b),
                            with7(last, v7a),
                        ];
                        out.push((inst, pool));
                    }
                }
            }
        }
    }
    out
}

const SAMPLE_IDS: [u64; 8] = [3, 0, 7, 1 << 40, 100, 5, u64::MAX, 42];

pub fn run(ctx: &Ctx) -> Finish {
    let t = ctx.tier == Tier::Thorough;
    let insts = instances(ctx.tier);
    ctx.note("instances", json!(insts.len()));
    let kmax_full = ctx.tier.pick(3, 4);
    // all ordered partitions of the first k ids, every assignment of a pool state to each block
    let mut shapes: Vec<Vec<(usize, Vec<u64>)>> = vec![];
    for k in 1..=kmax_full {
        for part in ordered_partitions(&SAMPLE_IDS[..k]) {
            odometer(&vec![4; part.len()], |d| {
                shapes.push(part.iter().zip(d).map(|(b, pi)| (*pi, b.clone())).collect());
            });
        }
    }
    // k = 5..6 with a pool of two states (0 and 2: equal values, different states), k = 7, 8 structured
    let mut big: Vec<Vec<(usize, Vec<u64>)>> = vec![];
    for k in 5..=ctx.tier.pick(5, 6) {
        for part in ordered_partitions(&SAMPLE_IDS[..k]) {
            if part.len() > 3 || (!t && part.len() > 2) {
                continue;
            }
            odometer(&vec![2; part.len()], |d| {
                big.push(part.iter().zip(d).map(|(b, pi)| (*pi * 2, b.clone())).collect());
            });
        }
    }
    for k in [7usize, 8] {
        let ids = &SAMPLE_IDS[..k];
        big.push(vec![(0, ids.to_vec())]);
        big.push(ids.iter().enumerate().map(|(i, id)| (i % 4, vec![*id])).collect());
        big.push(vec![(1, ids[..k / 2].to_vec()), (3, ids[k / 2..].iter().rev().cloned().collect())]);
        big.push(vec![(2, ids[..2].to_vec()), (0, ids[2..4].to_vec()), (2, ids[4..].to_vec())]);
    }
    ctx.note("samples_messages_per_instance", json!({"k<=kmax_full": shapes.len(), "k>=5": big.len()}));
    // add_sample insertion orders: k = 3 ids, every assignment, every order
    let mut add_seqs: Vec<Vec<(u64, usize)>> = vec![];
    odometer(&[4, 4, 4], |d| {
        for p in permutations(3) {
            add_seqs.push(p.iter().map(|i| (SAMPLE_IDS[*i], d[*i])).collect());
        }
    });
    // thorough: every Samples message with k = 5 over the 4-state pool, on every 8th instance
    let mut shapes5: Vec<Vec<(usize, Vec<u64>)>> = vec![];
    if t {
        for part in ordered_partitions(&SAMPLE_IDS[..5]) {
            odometer(&vec![4; part.len()], |d| {
                shapes5.push(part.iter().zip(d).map(|(b, pi)| (*pi, b.clone())).collect());
            });
        }
    }
    ctx.note("samples_messages_k5_full", json!(shapes5.len()));
    let big_stride = if t { 1 } else { 7 };
    ctx.par(insts.len(), |l, i| {
        let (inst, pool) = &insts[i];
        l.states += 1;
        for (k, sh) in shapes.iter().enumerate() {
            let case = Case { inst: inst.clone(), pool: pool.clone(), entries: sh.clone(), via_add_sample: None };
            if k == 40 && ctx.want_sample(i as u64) {
                l.samples.push((i as u64, json!(case)));
            }
            check_case(l, &case);
        }
        for (k, sh) in big.iter().enumerate() {
            if k % big_stride == i % big_stride || sh.iter().map(|e| e.1.len()).sum::<usize>() >= 7 {
                check_case(l, &Case { inst: inst.clone(), pool: pool.clone(), entries: sh.clone(), via_add_sample: None });
            }
        }
        if i % 8 == 0 {
            for sh in &shapes5 {
                check_case(l, &Case { inst: inst.clone(), pool: pool.clone(), entries: sh.clone(), via_add_sample: None });
            }
        }
        // states that omit a variable the problem may use (ids 1 and 2): whenever the single-state path
        // rejects such a state, so must the set evaluation - alone, and next to a complete sample in either order
        for missing in [1u64, 2] {
            let mut pool2 = pool.clone();
            pool2.push(pool[0].iter().filter(|(k, _)| *k != missing).cloned().collect());
            let bad = pool2.len() - 1;
            for entries in [
                vec![(bad, vec![SAMPLE_IDS[0]])],
                vec![(0, vec![SAMPLE_IDS[0]]), (bad, vec![SAMPLE_IDS[1]])],
                vec![(bad, vec![SAMPLE_IDS[1], SAMPLE_IDS[2]]), (3, vec![SAMPLE_IDS[0]])],
            ] {
                check_case(l, &Case { inst: inst.clone(), pool: pool2.clone(), entries, via_add_sample: None });
            }
        }
        if t || i % 4 == 0 {
            for seq in &add_seqs {
                check_case(l, &Case { inst: inst.clone(), pool: pool.clone(), entries: vec![], via_add_sample: Some(seq.clone()) });
            }
        }
    });
    ctx.assume("Differential oracle: the single-state path Instance::evaluate is verified independently by C05.");
    Finish {
        level: "model_checking",
        rule: "every Samples message with k sample ids: every ordered set partition of the ids into entries x every assignment of a pool state to each entry (the pool holds a state omitting the irrelevant variable, two different states with equal objective and constraint values, and a duplicate so equal states sit in separate entries), plus every add_sample insertion order for k=3; each message through the real evaluate_samples and SampleSet::get, compared field by field with Instance::evaluate of that sample's state; tables keyed by exactly the submitted ids; samples whose state omits a variable the problem uses (alone / beside a complete sample): rejected by the set evaluation exactly when Instance::evaluate rejects them; non-trivial = at least two samples".into(),
        bounds: json!({"k_full": kmax_full, "k_two_state_pool": ctx.tier.pick(5,6), "k_structured": [7,8], "pool_states": 4, "sample_ids": ["3","0","7","2^40","100","5","u64::MAX","42"]}),
        exhaustive: t,
    }
}

pub fn replay(l: &mut Local, case: &serde_json::Value) -> Result<(), String> {
    let c: Case = serde_json::from_value(case.clone()).map_err(|e| e.to_string())?;
    check_case(l, &c);
    Ok(())
}

//! C04 — substitution is function composition and dependent variables are recovered.

use crate::engine::*;
use crate::refmodel::family::*;
use crate::refmodel::inst::*;
use crate::refmodel::msg::*;
use crate::refmodel::poly::*;
use ommx::{v1, Evaluate};
use serde::{Deserialize, Serialize};
use serde_json::json;
use std::collections::{BTreeMap, BTreeSet, HashMap};
use std::sync::atomic::{AtomicU64, Ordering};

#[derive(Clone, Debug, Serialize, Deserialize)]
pub enum Case {
    /// Function::substitute with a replacement map
    Fun { f: FnRep, map: Vec<(u64, FnRep)> },
    /// Instance::substitute (one or two successive maps), then evaluate at `state`
    Inst {
        inst: InstRep,
        maps: Vec<Vec<(u64, FnRep)>>,
        state: Vec<(u64, f64)>,
        order: Option<Vec<usize>>,
    },
    /// log_encode -> substitute -> evaluate
    LogEncode { lower: f64, upper: f64, bits: Vec<f64>, x1: f64 },
    /// dependency graph on `n` dependents; members[i] lists what dependent i sums:
    /// j < n = dependent j, n = base variable (has a value), n+1 = variable without value
    Graph {
        n: usize,
        members: Vec<Vec<usize>>,
        perm: Vec<usize>,
        /// false: f_i = 1 + sum(members); true: f_i = 1 + z * sum(members) with z a variable whose value is 0
        #[serde(default)]
        times_zero: bool,
    },
}

fn to_map(m: &[(u64, FnRep)]) -> HashMap<u64, v1::Function> {
    m.iter().map(|(k, f)| (*k, f.to_msg())).collect()
}
fn to_pmap(m: &[(u64, FnRep)]) -> BTreeMap<u64, Poly> {
    m.iter().map(|(k, f)| (*k, f.poly())).collect()
}

const DEP_BASE: u64 = 11;
const BASE_VAR: u64 = 1;
const NOVALUE_VAR: u64 = 5;

const ZERO_VAR: u64 = 2;

fn graph_instance_mul(n: usize, members: &[Vec<usize>]) -> InstRep {
    let mut inst = graph_instance(n, members);
    inst.vars.push(VarRep::new(ZERO_VAR, KIND_CONTINUOUS, None));
    for (i, (_, f)) in inst.dependencies.iter_mut().enumerate() {
        if let FnRep::Lin { terms, c } = f.clone() {
            // alternate representation: quadratic entries (z, member) / polynomial monomials [member, z]
            *f = if i % 2 == 0 {
                FnRep::Quad { entries: terms.iter().map(|(id, co)| (ZERO_VAR, *id, *co)).collect(), lin: Some((vec![], c)) }
            } else {
                FnRep::Poly { terms: terms.iter().map(|(id, co)| (vec![ZERO_VAR, *id], *co)).chain(std::iter::once((vec![], c))).collect() }
            };
        }
    }
    inst
}

fn graph_instance(n: usize, members: &[Vec<usize>]) -> InstRep {
    let mut vars = vec![VarRep::new(BASE_VAR, KIND_CONTINUOUS, None), VarRep::new(NOVALUE_VAR, KIND_CONTINUOUS, Some((3.0, 9.0)))];
    let mut deps = vec![];
    for i in 0..n {
        vars.push(VarRep::new(DEP_BASE + i as u64, KIND_CONTINUOUS, None));
        let terms: Vec<(u64, f64)> = members[i]
            .iter()
            .map(|m| {
                if *m < n {
                    (DEP_BASE + *m as u64, 1.0)
                } else if *m == n {
                    (BASE_VAR, 1.0)
                } else {
                    (NOVALUE_VAR, 1.0)
                }
            })
            .collect();
        deps.push((DEP_BASE + i as u64, FnRep::Lin { terms, c: 1.0 }));
    }
    InstRep {
        sense: SENSE_MIN,
        objective: Some(FnRep::Lin { terms: vec![(BASE_VAR, 1.0)], c: 0.0 }),
        vars,
        dependencies: deps,
        ..Default::default()
    }
}

/// Kahn's algorithm on the graph: Some(values) iff acyclic and no dependent reaches the valueless variable.
fn graph_oracle(n: usize, members: &[Vec<usize>], base_value: i64) -> Option<Vec<i64>> {
    let mut val: Vec<Option<i64>> = vec![None; n];
    loop {
        let mut progress = false;
        for i in 0..n {
            if val[i].is_some() {
                continue;
            }
            let mut s = 1i64;
            let mut ready = true;
            for m in &members[i] {
                if *m < n {
                    match val[*m] {
                        Some(v) => s += v,
                        None => ready = false,
                    }
                } else if *m == n {
                    s += base_value;
                } else {
                    ready = false; // needs the variable that has no value: never ready
                }
            }
            if ready {
                val[i] = Some(s);
                progress = true;
            }
        }
        if val.iter().all(|v| v.is_some()) {
            return Some(val.into_iter().map(|v| v.unwrap()).collect());
        }
        if !progress {
            return None;
        }
    }
}

// watchdog slots: (start_ms+1 or 0, n, graph code, perm code)
const SLOTS: usize = 256;
static WD: [AtomicU64; SLOTS * 4] = [const { AtomicU64::new(0) }; SLOTS * 4];
static EPOCH: std::sync::OnceLock<std::time::Instant> = std::sync::OnceLock::new();

fn now_ms() -> u64 {
    EPOCH.get_or_init(std::time::Instant::now).elapsed().as_millis() as u64
}

fn decode_members(n: usize, mut code: u64) -> Vec<Vec<usize>> {
    let bits = n + 2;
    (0..n)
        .map(|_| {
            let m = code & ((1 << bits) - 1);
            code >>= bits;
            (0..bits).filter(|b| m >> b & 1 == 1).collect()
        })
        .collect()
}

pub fn check_case(l: &mut Local, case: &Case) {
    l.evaluations += 1;
    match case {
        Case::Fun { f, map } => {
            l.transitions += 1;
            let before = f.poly();
            let expected = before.subst(&to_pmap(map));
            l.outcome(&expected);
            if !before.is_zero() && map.iter().any(|(k, _)| before.vars().contains(k)) {
                l.nontrivial += 1;
            }
            let msg = f.to_msg();
            let rm = to_map(map);
            let v = f.variant();
            match sdk(|| msg.substitute(&rm).map_err(|e| format!("{e:#}"))) {
                Err(p) => l.violation(&format!("function/{v}/panic"), || json!(case), p),
                Ok(Err(e)) => l.violation(&format!("function/{v}/error"), || json!(case), format!("Function::substitute failed: {e}")),
                Ok(Ok(out)) => match poly_of_function(&out) {
                    Err(e) => l.violation(&format!("function/{v}/unreadable"), || json!(case), e),
                    Ok(got) => {
                        if got != expected {
                            l.violation(
                                &format!("function/{v}/wrong-composition"),
                                || json!(case),
                                format!(
                                    "substituting {{{}}} into {} gave {}, exact composition is {}",
                                    map.iter().map(|(k, f)| format!("x{k} := {}", f.poly().show())).collect::<Vec<_>>().join(", "),
                                    before.show(),
                                    got.show(),
                                    expected.show()
                                ),
                            );
                        }
                    }
                },
            }
        }
        Case::Inst { inst, maps, state, order } => check_inst(l, case, inst, maps, state, order),
        Case::LogEncode { lower, upper, bits, x1 } => check_log_encode(l, case, *lower, *upper, bits, *x1),
        Case::Graph { n, members, perm, times_zero } => {
            l.transitions += 1;
            let inst = if *times_zero { graph_instance_mul(*n, members) } else { graph_instance(*n, members) };
            let msg = inst.to_msg();
            let st = if *times_zero { mk_state(&[(BASE_VAR, 2.0), (ZERO_VAR, 0.0)]) } else { mk_state(&[(BASE_VAR, 2.0)]) };
            // with the zero factor every evaluable dependent equals 1, but evaluability is the same
            let oracle = graph_oracle(*n, members, 2).map(|v| if *times_zero { vec![1; v.len()] } else { v });
            l.outcome(&oracle);
            if members.iter().any(|m| m.iter().any(|x| x < n)) {
                l.nontrivial += 1;
            }
            ommx::verif::set_dependency_order(Some(perm.clone()));
            let got = sdk(|| msg.evaluate(&st).map_err(|e| format!("{e:#}")));
            ommx::verif::set_dependency_order(None);
            // the sampled entry point on the same graph (once per graph: under the identity order)
            if perm.iter().enumerate().all(|(i, p)| *p == i) {
                l.transitions += 1;
                let mut samples = v1::Samples::default();
                samples.add_sample(4, st.clone());
                ommx::verif::set_dependency_order(Some(perm.clone()));
                let got2 = sdk(|| msg.evaluate_samples(&samples).map_err(|e| format!("{e:#}")));
                ommx::verif::set_dependency_order(None);
                match (&oracle, got2) {
                    (_, Err(p)) => l.violation("graph/samples/panic", || json!(case), p),
                    (None, Ok(Ok(_))) => l.violation(
                        "graph/samples/unevaluable-dependencies-accepted",
                        || json!(case),
                        "dependencies are cyclic or reach a variable without value, but evaluate_samples returned a sample set".into(),
                    ),
                    (None, Ok(Err(_))) => {}
                    (Some(_), Ok(Err(e))) => l.violation("graph/samples/evaluable-dependencies-rejected", || json!(case), format!("evaluate_samples failed: {e}")),
                    (Some(exp), Ok(Ok((ss, _)))) => {
                        let vals: Option<BTreeMap<u64, f64>> = sdk(|| ss.get(4).map_err(|e| format!("{e:#}"))).ok().and_then(|r| r.ok()).and_then(|s| s.state).map(|s| s.entries.into_iter().collect());
                        let ok = vals.as_ref().is_some_and(|v| exp.iter().enumerate().all(|(i, x)| v.get(&(DEP_BASE + i as u64)) == Some(&(*x as f64))));
                        if !ok {
                            l.violation("graph/samples/wrong-dependent-values", || json!(case), format!("sample set reports {vals:?}, expected dependents {exp:?}"));
                        }
                    }
                }
            }
            match (oracle, got) {
                (_, Err(p)) => l.violation("graph/panic", || json!(case), p),
                (None, Ok(Ok((sol, _)))) => {
                    let vals: BTreeMap<u64, f64> = sol.state.map(|s| s.entries.into_iter().collect()).unwrap_or_default();
                    l.violation(
                        "graph/unevaluable-dependencies-accepted",
                        || json!(case),
                        format!("dependencies are cyclic or reach a variable without value, but evaluate returned a state: {vals:?}"),
                    );
                }
                (None, Ok(Err(_))) => {}
                (Some(_), Ok(Err(e))) => l.violation(
                    "graph/evaluable-dependencies-rejected",
                    || json!(case),
                    format!("acyclic dependencies with all values available, but evaluate failed: {e}"),
                ),
                (Some(exp), Ok(Ok((sol, _)))) => {
                    let vals: BTreeMap<u64, f64> = sol.state.map(|s| s.entries.into_iter().collect()).unwrap_or_default();
                    let mut want: BTreeMap<u64, f64> = BTreeMap::new();
                    want.insert(BASE_VAR, 2.0);
                    want.insert(NOVALUE_VAR, 3.0); // unused variable: nearest to zero within [3, 9]
                    if *times_zero {
                        want.insert(ZERO_VAR, 0.0);
                    }
                    for (i, v) in exp.iter().enumerate() {
                        want.insert(DEP_BASE + i as u64, *v as f64);
                    }
                    if vals != want {
                        l.violation(
                            "graph/wrong-dependent-values",
                            || json!(case),
                            format!("reported state {vals:?}, expected {want:?}"),
                        );
                    }
                }
            }
        }
    }
}

fn check_inst(l: &mut Local, case: &Case, inst: &InstRep, maps: &[Vec<(u64, FnRep)>], state: &[(u64, f64)], order: &Option<Vec<usize>>) {
    let mut msg = inst.to_msg();
    // expected composed view, step by step
    let mut view = inst_view_rep(inst);
    l.nontrivial += 1;
    for m in maps {
        l.transitions += 1;
        let pm = to_pmap(m);
        view.objective = view.objective.subst(&pm);
        for c in view.constraints.iter_mut() {
            c.poly = c.poly.subst(&pm);
        }
        for r in view.removed.iter_mut() {
            r.0.poly = r.0.poly.subst(&pm);
        }
        for d in view.dependencies.values_mut() {
            *d = d.subst(&pm);
        }
        for (k, p) in &pm {
            view.dependencies.insert(*k, p.clone());
        }
        match sdk(|| msg.substitute(to_map(m)).map_err(|e| format!("{e:#}"))) {
            Err(p) => return l.violation("instance/panic", || json!(case), p),
            Ok(Err(e)) => return l.violation("instance/error", || json!(case), format!("Instance::substitute failed: {e}")),
            Ok(Ok(())) => {}
        }
    }
    l.outcome(&(&view.objective, view.dependencies.len()));
    match inst_view(&msg) {
        Err(e) => return l.violation("instance/unreadable", || json!(case), e),
        Ok(got) => {
            if got.objective != view.objective {
                l.violation("instance/objective", || json!(case), format!("objective is {}, exact composition {}", got.objective.show(), view.objective.show()));
            }
            if got.constraints != view.constraints {
                l.violation("instance/constraints", || json!(case), format!("constraints {:?}, expected {:?}", got.constraints, view.constraints));
            }
            if got.removed != view.removed {
                l.violation("instance/removed-constraints", || json!(case), format!("removed constraints {:?}, expected {:?}", got.removed, view.removed));
            }
            if got.dependencies != view.dependencies {
                l.violation("instance/dependencies", || json!(case), format!("dependency map {:?}, expected {:?}", got.dependencies, view.dependencies));
            }
            if got.vars != view.vars || got.sense != view.sense {
                l.violation("instance/variables-or-sense-changed", || json!(case), "decision variables or sense changed by substitute".into());
            }
        }
    }
    // evaluate at a state over the remaining variables
    let mut completed = qstate(state);
    let deps: Vec<(u64, Poly, BTreeSet<u64>)> = view.dependencies.iter().map(|(k, p)| (*k, p.clone(), p.vars())).collect();
    let dep_ok = ref_dependencies(&deps, &mut completed).is_ok();
    l.transitions += 1;
    if let Some(o) = order {
        ommx::verif::set_dependency_order(Some(o.clone()));
    }
    let got = sdk(|| msg.evaluate(&mk_state(state)).map_err(|e| format!("{e:#}")));
    ommx::verif::set_dependency_order(None);
    let got = match got {
        Err(p) => return l.violation("instance/evaluate-panic", || json!(case), p),
        Ok(g) => g,
    };
    if !dep_ok {
        if got.is_ok() {
            l.violation("instance/unevaluable-dependency-accepted", || json!(case), "evaluate succeeded although a dependency cannot be evaluated".into());
        }
        return;
    }
    // expected: the ORIGINAL instance (plus its original dependencies) evaluated at the completed state
    let full: Vec<(u64, f64)> = completed.iter().map(|(k, v)| (*k, q_to_f64(v))).collect();
    let replaced: BTreeSet<u64> = maps.iter().flat_map(|m| m.iter().map(|(k, _)| *k)).collect();
    let mut orig = inst.clone();
    orig.dependencies.clear();
    let given_for_ref: Vec<(u64, f64)> = full.clone();
    // a bound constrains the values a caller supplies; the value of a replacement is reported as it is
    let mut orig_ref = orig.clone();
    for v in orig_ref.vars.iter_mut() {
        if replaced.contains(&v.id) {
            v.bound = None;
        }
    }
    let expected = ref_evaluate(&orig_ref, &given_for_ref);
    match (expected, got) {
        (Ok(exp), Ok((sol, _))) => {
            for (sig, d) in compare_solution_opts(&sol, &exp, &orig, true, false) {
                l.violation(
                    &format!("instance/solution/{sig}"),
                    || json!(case),
                    format!("after substituting {replaced:?} and evaluating at {state:?}: {d}"),
                );
            }
        }
        (Ok(_), Err(e)) => l.violation("instance/evaluate-error", || json!(case), format!("evaluate after substitute failed: {e}")),
        (Err(_), _) => {}
    }
    // The sampled entry point on the substituted instance: this state and the other state of the
    // alphabet as two samples, in both orders; every sample's reported state (replaced variables
    // included) equals that of evaluating its state alone.
    let pairs: [(u64, f64, f64); 4] = [(1, 0.5, 2.0), (2, -1.0, 0.5), (7, 2.0, -1.0), (8, 2.0, 1.0)];
    let other: Vec<(u64, f64)> = state.iter().map(|(id, v)| pairs.iter().find(|p| p.0 == *id).map_or((*id, *v), |p| (*id, if *v == p.1 { p.2 } else { p.1 }))).collect();
    let alone = |st: &[(u64, f64)]| sdk(|| msg.evaluate(&mk_state(st)).map_err(|e| format!("{e:#}"))).ok().and_then(|r| r.ok()).map(|r| r.0);
    let (Some(a0), Some(a1)) = (alone(state), alone(&other)) else { return };
    for order in [[0usize, 1], [1, 0]] {
        l.transitions += 1;
        let sts = [state.to_vec(), other.clone()];
        let mut samples = v1::Samples::default();
        for k in order {
            samples.add_sample([3u64, 8][k], mk_state(&sts[k]));
        }
        let ss = match sdk(|| msg.evaluate_samples(&samples).map_err(|e| format!("{e:#}"))) {
            Err(p) => return l.violation("instance/evaluate_samples-panic", || json!(case), p),
            Ok(Err(e)) => return l.violation("instance/evaluate_samples-error", || json!(case), format!("evaluate_samples after substitute failed although evaluate accepts both states: {e}")),
            Ok(Ok((ss, _))) => ss,
        };
        for (k, want) in [(0usize, &a0), (1, &a1)] {
            let id = [3u64, 8][k];
            let got = sdk(|| ss.get(id).map_err(|e| format!("{e:#}"))).ok().and_then(|r| r.ok());
            let bits = |s: &v1::Solution| -> BTreeMap<u64, u64> { s.state.as_ref().map_or_else(BTreeMap::new, |st| st.entries.iter().map(|(k, v)| (*k, v.to_bits())).collect()) };
            if got.as_ref().map(bits) != Some(bits(want)) || got.as_ref().map(|g| g.objective.to_bits()) != Some(want.objective.to_bits()) {
                return l.violation(
                    "instance/evaluate_samples-differs",
                    || json!(case),
                    format!("sample {id} (state {:?}): the sample set reports state {:?}, evaluating the state alone {:?}", sts[k], got.as_ref().map(|g| g.state.as_ref().map(|s| s.entries.iter().collect::<BTreeMap<_, _>>())), want.state.as_ref().map(|s| s.entries.iter().collect::<BTreeMap<_, _>>())),
                );
            }
        }
    }
}

fn check_log_encode(l: &mut Local, case: &Case, lower: f64, upper: f64, bits: &[f64], x1: f64) {
    // minimise x1 + 2*x3 subject to x3 - x1 <= 0, x3 integer in [lower, upper]
    let inst = InstRep {
        sense: SENSE_MIN,
        objective: Some(FnRep::Quad { entries: vec![(3, 1, 1.0)], lin: Some((vec![(3, 2.0)], 0.0)) }),
        vars: vec![VarRep::new(1, KIND_CONTINUOUS, None), VarRep::new(3, KIND_INTEGER, Some((lower, upper)))],
        constraints: vec![ConRep::new(0, LE_ZERO, Some(FnRep::Lin { terms: vec![(3, 1.0), (1, -1.0)], c: 0.0 }))],
        ..Default::default()
    };
    let mut msg = inst.to_msg();
    l.transitions += 1;
    l.nontrivial += 1;
    let enc = match sdk(|| msg.log_encode(3).map_err(|e| format!("{e:#}"))) {
        Err(p) => return l.violation("log-encode/panic", || json!(case), p),
        Ok(Err(e)) => return l.violation("log-encode/error", || json!(case), e),
        Ok(Ok(e)) => e,
    };
    let enc_poly = match poly_of_linear(&enc) {
        Ok(p) => p,
        Err(e) => return l.violation("log-encode/unreadable", || json!(case), e),
    };
    let new_ids: Vec<u64> = enc.terms.iter().map(|t| t.id).collect();
    if new_ids.len() != bits.len() {
        return; // bit count is C12's subject; this case only drives the pipeline
    }
    let map: HashMap<u64, v1::Function> = [(3u64, v1::Function::from(enc.clone()))].into_iter().collect();
    if let Err(e) = sdk(|| msg.substitute(map).map_err(|e| format!("{e:#}"))).and_then(|r| r) {
        return l.violation("log-encode/substitute-error", || json!(case), e);
    }
    let mut st: Vec<(u64, f64)> = vec![(1, x1)];
    for (id, b) in new_ids.iter().zip(bits) {
        st.push((*id, *b));
    }
    let x3 = enc_poly.eval(&qstate(&st)).unwrap();
    l.outcome(&x3);
    match sdk(|| msg.evaluate(&mk_state(&st)).map_err(|e| format!("{e:#}"))) {
        Err(p) => l.violation("log-encode/evaluate-panic", || json!(case), p),
        Ok(Err(e)) => l.violation("log-encode/evaluate-error", || json!(case), e),
        Ok(Ok((sol, _))) => {
            let got3 = sol.state.as_ref().and_then(|s| s.entries.get(&3)).cloned();
            if got3.and_then(q_opt).as_ref() != Some(&x3) {
                l.violation("log-encode/encoded-variable-value", || json!(case), format!("reported x3 = {got3:?}, the encoding evaluates to {}", qs(&x3)));
            }
            let obj = &x3 * &q(x1) + qi(2) * &x3;
            if q_opt(sol.objective).as_ref() != Some(&obj) {
                l.violation("log-encode/objective", || json!(case), format!("objective {} expected {}", sol.objective, qs(&obj)));
            }
            let cval = &x3 - &q(x1);
            let cgot = sol.evaluated_constraints.first().map(|c| c.evaluated_value);
            if cgot.and_then(q_opt).as_ref() != Some(&cval) {
                l.violation("log-encode/constraint", || json!(case), format!("constraint value {cgot:?} expected {}", qs(&cval)));
            }
        }
    }
}

fn replacement_pool(key: u64) -> Vec<Option<FnRep>> {
    let next = match key {
        1 => 2,
        2 => 7,
        7 => 9,
        _ => 1,
    };
    vec![
        None,
        Some(FnRep::Const(2.0)),
        Some(FnRep::Lin { terms: vec![(3, 1.0)], c: 1.0 }),
        Some(FnRep::Lin { terms: vec![(next, 1.0), (4, -0.5)], c: 0.0 }),
        Some(FnRep::Quad { entries: vec![(4, 3, 1.0)], lin: Some((vec![], -0.5)) }),
        Some(FnRep::Const(0.0)),
        Some(FnRep::Lin { terms: vec![(key, 1.0)], c: 0.0 }),
        // unnormalised replacement: the same id listed twice, unsorted
        Some(FnRep::Lin { terms: vec![(4, 1.0), (3, 1.0), (4, 2.0)], c: 0.5 }),
    ]
}

fn c04_instances(tier: Tier) -> Vec<InstRep> {
    let t = tier == Tier::Thorough;
    let small = family_small();
    let objs: Vec<Option<FnRep>> = std::iter::once(None)
        .chain(small.iter().step_by(if t { 1 } else { 2 }).map(|f| Some(f.clone())))
        .collect();
    let cf = [
        FnRep::Lin { terms: vec![(2, -0.5), (1, 2.0)], c: 1.0 },
        FnRep::Quad { entries: vec![(2, 1, -0.5), (7, 2, 2.0)], lin: Some((vec![(7, 1.0)], 0.5)) },
        FnRep::Poly { terms: vec![(vec![7, 2, 7], -0.5), (vec![1], 1.0), (vec![], -1.0)] },
    ];
    let mut out = vec![];
    for o in &objs {
        for (ci, c) in cf.iter().enumerate() {
            for removed in [false, true] {
                for (dep, bounded) in [(false, false), (true, false), (false, true), (true, true)] {
                    // bounded: the variables that get replaced carry finite bounds which the state values
                    // respect but the replacement values need not (the bound constrains given values only)
                    let b2 = if bounded { Some((-1.0, 0.5)) } else { None };
                    let b7 = if bounded { Some((-1.0, 2.0)) } else { None };
                    let mut inst = InstRep {
                        sense: SENSE_MIN,
                        objective: o.clone(),
                        vars: vec![
                            VarRep::new(1, KIND_CONTINUOUS, None),
                            VarRep::new(2, KIND_CONTINUOUS, b2),
                            VarRep::new(7, KIND_INTEGER, b7),
                            VarRep::new(8, KIND_CONTINUOUS, Some((1.0, f64::INFINITY))),
                            VarRep::new(9, KIND_CONTINUOUS, None),
                        ],
                        constraints: vec![ConRep::new(3, if ci % 2 == 0 { LE_ZERO } else { EQ_ZERO }, Some(c.clone())).with_meta("c")],
                        ..Default::default()
                    };
                    // the decision-variable list is a set: half of the family lists it out of id order
                    if (ci + usize::from(removed) + usize::from(dep)) % 2 == 1 {
                        inst.vars = vec![inst.vars[3].clone(), inst.vars[1].clone(), inst.vars[4].clone(), inst.vars[0].clone(), inst.vars[2].clone()];
                    }
                    if removed {
                        inst.removed.push(RemRep {
                            constraint: ConRep::new(40, LE_ZERO, Some(cf[(ci + 1) % 3].clone())),
                            reason: "r".into(),
                            parameters: vec![],
                        });
                    }
                    if dep {
                        // existing dependency that mentions variables about to be replaced
                        inst.dependencies.push((9, FnRep::Lin { terms: vec![(2, 1.0), (7, 2.0)], c: 0.0 }));
                    }
                    out.push(inst);
                }
            }
        }
    }
    out
}

pub fn run(ctx: &Ctx) -> Finish {
    let t = ctx.tier == Tier::Thorough;
    // ---- 1. function level
    let mut fs = family_medium();
    fs.extend(gen_polynomial(&[vec![1, 2, 9], vec![9, 9], vec![7, 9, 1], vec![2]], &[1.0, -0.5], 2));
    if !t {
        fs = fs.into_iter().step_by(2).collect();
    }
    let keys = [1u64, 2, 7, 9];
    let pools: Vec<Vec<Option<FnRep>>> = keys.iter().map(|k| replacement_pool(*k)).collect();
    let mut maps: Vec<Vec<(u64, FnRep)>> = vec![];
    odometer(&[8, 8, 8, 8], |d| {
        let m: Vec<(u64, FnRep)> = (0..4).filter_map(|i| pools[i][d[i]].clone().map(|f| (keys[i], f))).collect();
        maps.push(m); // includes the empty map (early-return path of substitute)
    });
    ctx.note("function_level", json!({"functions": fs.len(), "replacement_maps": maps.len()}));
    ctx.par(fs.len(), |l, i| {
        l.states += 1;
        for (k, m) in maps.iter().enumerate() {
            let case = Case::Fun { f: fs[i].clone(), map: m.clone() };
            if k == 1000 && ctx.want_sample(i as u64) {
                l.samples.push((i as u64, json!(case)));
            }
            check_case(l, &case);
        }
    });
    // ---- 1b. long functions (31..100 terms) with replacements for the first, a middle and the last id
    let long = super::c01::long_functions();
    ctx.par(long.len(), |l, i| {
        let (f, ids) = &long[i];
        l.states += 1;
        let (a, m, z) = (ids[0], ids[ids.len() / 2], *ids.last().unwrap());
        let maps: Vec<Vec<(u64, FnRep)>> = vec![
            vec![(a, FnRep::Const(2.0))],
            vec![(z, FnRep::Lin { terms: vec![(a, 1.0), (m, -0.5)], c: 1.0 })],
            vec![(a, FnRep::Lin { terms: vec![(z, 1.0)], c: 0.0 }), (z, FnRep::Lin { terms: vec![(a, 1.0)], c: 0.0 }), (m, FnRep::Quad { entries: vec![(a, z, 1.0)], lin: None })],
            ids.iter().step_by(2).map(|id| (*id, FnRep::Lin { terms: vec![(z + 3, 1.0)], c: 0.5 })).collect(),
        ];
        for m in maps {
            check_case(l, &Case::Fun { f: f.clone(), map: m });
        }
    });
    // ---- 1c. id extremes: small functions under 1 -> 0, 2 -> u64::MAX, 7 -> 2^32 + 3, 9 -> 5, with maps keyed by them
    {
        let e = (1u64 << 32) + 3;
        let rn = |i: u64| match i { 1 => 0, 2 => u64::MAX, 7 => e, _ => 5 };
        let ext: Vec<FnRep> = fs.iter().filter(|f| f.n_terms() <= 2).map(|f| super::c01::rename(f, &rn)).collect();
        let ext_maps: Vec<Vec<(u64, FnRep)>> = vec![
            vec![(u64::MAX, FnRep::Const(2.0))],
            vec![(u64::MAX, FnRep::Lin { terms: vec![(0, 1.0), (e, -0.5)], c: 1.0 })],
            vec![(0, FnRep::Lin { terms: vec![(u64::MAX, 1.0)], c: 0.0 }), (u64::MAX, FnRep::Lin { terms: vec![(0, 1.0)], c: 0.0 })],
            vec![(e, FnRep::Quad { entries: vec![(u64::MAX, 0, 1.0)], lin: None }), (0, FnRep::Const(-1.0))],
        ];
        ctx.par(ext.len(), |l, i| {
            l.states += 1;
            for m in &ext_maps {
                check_case(l, &Case::Fun { f: ext[i].clone(), map: m.clone() });
            }
        });
    }
    // ---- 2. instance level
    let insts = c04_instances(ctx.tier);
    let lin = |terms: Vec<(u64, f64)>, c: f64| FnRep::Lin { terms, c };
    let first_maps: Vec<Vec<(u64, FnRep)>> = vec![
        vec![(2, lin(vec![(1, 1.0)], 1.0))],
        vec![(2, FnRep::Const(0.5))],
        vec![(7, FnRep::Quad { entries: vec![(1, 1, 1.0)], lin: None })],
        vec![(2, lin(vec![(1, 2.0), (8, -1.0)], 0.0)), (7, lin(vec![(8, 1.0)], -1.0))],
        vec![(7, FnRep::Poly { terms: vec![(vec![8, 1], 1.0)] })],
        vec![(2, lin(vec![(8, 1.0), (1, 1.0), (8, 2.0)], 0.5))],
    ];
    let second_maps: Vec<Option<Vec<(u64, FnRep)>>> = vec![None, Some(vec![(1, lin(vec![(8, 2.0)], 0.5))]), Some(vec![(1, FnRep::Const(-1.0))])];
    let states: Vec<Vec<(u64, f64)>> = vec![
        vec![(1, 0.5), (2, -1.0), (7, 2.0), (8, 2.0)],
        vec![(1, 2.0), (2, 0.5), (7, -1.0), (8, 1.0)],
    ];
    ctx.note("instance_level", json!({"instances": insts.len(), "first_maps": first_maps.len(), "second_maps": second_maps.len()}));
    ctx.par(insts.len(), |l, i| {
        l.states += 1;
        for fm in &first_maps {
            for sm in &second_maps {
                let mut maps = vec![fm.clone()];
                if let Some(s) = sm {
                    maps.push(s.clone());
                }
                let replaced: BTreeSet<u64> = maps.iter().flat_map(|m| m.iter().map(|(k, _)| *k)).collect();
                let had_dep = !insts[i].dependencies.is_empty();
                let n_deps = replaced.len() + usize::from(had_dep);
                for st in &states {
                    let remaining: Vec<(u64, f64)> = st.iter().filter(|(k, _)| !replaced.contains(k)).cloned().collect();
                    let orders: Vec<Option<Vec<usize>>> = if n_deps >= 2 { permutations(n_deps).into_iter().map(Some).collect() } else { vec![None] };
                    for order in orders {
                        let case = Case::Inst { inst: insts[i].clone(), maps: maps.clone(), state: remaining.clone(), order };
                        if ctx.want_sample((1 << 40) + i as u64) && maps.len() == 2 {
                            l.samples.push(((1 << 40) + i as u64, json!(case)));
                        }
                        check_case(l, &case);
                    }
                }
            }
        }
    });
    // ---- 2b. log_encode -> substitute -> evaluate
    ctx.seq(|l| {
        for (lo, up, nbits) in [(0.0, 3.0, 2usize), (-2.0, 3.0, 3), (1.0, 6.0, 3), (0.0, 1.0, 1)] {
            for pat in sequences(2, nbits) {
                let bits: Vec<f64> = pat.iter().map(|b| *b as f64).collect();
                check_case(l, &Case::LogEncode { lower: lo, upper: up, bits, x1: 0.5 });
            }
        }
    });
    // ---- 3. dependency graphs x every iteration order
    EPOCH.get_or_init(std::time::Instant::now);
    let stop_wd = std::sync::Arc::new(std::sync::atomic::AtomicBool::new(false));
    let wd_stop = stop_wd.clone();
    let wd = std::thread::spawn(move || {
        while !wd_stop.load(Ordering::Relaxed) {
            std::thread::sleep(std::time::Duration::from_millis(500));
            let now = now_ms();
            for s in 0..SLOTS {
                let st = WD[s * 4].load(Ordering::Relaxed);
                if st != 0 && now > st + 5000 {
                    let n = WD[s * 4 + 1].load(Ordering::Relaxed) as usize;
                    let members = decode_members(n, WD[s * 4 + 2].load(Ordering::Relaxed));
                    let perm = permutations(n)[WD[s * 4 + 3].load(Ordering::Relaxed) as usize].clone();
                    let case = json!(Case::Graph { n, members, perm, times_zero: false });
                    let dir = format!("{VERIF_ROOT}/replays/C04");
                    let _ = std::fs::create_dir_all(&dir);
                    let path = format!("{dir}/graph_hang.json");
                    let _ = std::fs::write(&path, serde_json::to_string_pretty(&json!({"property": "C04", "signature": "graph/hang", "detail": "Instance::evaluate did not return within 5 s", "case": case})).unwrap());
                    println!("VIOLATION property=C04 replay={path}");
                    std::process::exit(1);
                }
            }
        }
    });
    let max_n = ctx.tier.pick(3, 4);
    let mut graphs_total = 0u64;
    for n in 1..=max_n {
        let bits = n + 2;
        let total: u64 = 1u64 << (bits * n);
        let perms = permutations(n);
        graphs_total += total;
        let chunk: u64 = 256;
        let n_chunks = ((total + chunk - 1) / chunk) as usize;
        ctx.par(n_chunks, |l, ci| {
            let slot = rayon::current_thread_index().unwrap_or(0) % SLOTS;
            for code in (ci as u64 * chunk)..((ci as u64 + 1) * chunk).min(total) {
                // a dependent never lists itself twice; self-reference (bit i of dependent i) is a 1-cycle and is kept
                let members = decode_members(n, code);
                l.states += 1;
                for (pi, perm) in perms.iter().enumerate() {
                    WD[slot * 4 + 1].store(n as u64, Ordering::Relaxed);
                    WD[slot * 4 + 2].store(code, Ordering::Relaxed);
                    WD[slot * 4 + 3].store(pi as u64, Ordering::Relaxed);
                    WD[slot * 4].store(now_ms() + 1, Ordering::Relaxed);
                    let case = Case::Graph { n, members: members.clone(), perm: perm.clone(), times_zero: false };
                    if pi == 0 && ctx.want_sample((2 << 40) + code) {
                        l.samples.push(((2 << 40) + code, json!(case)));
                    }
                    check_case(l, &case);
                    if n <= 3 {
                        check_case(l, &Case::Graph { n, members: members.clone(), perm: perm.clone(), times_zero: true });
                    }
                    WD[slot * 4].store(0, Ordering::Relaxed);
                }
            }
        });
    }
    // n = 5: chains, cycles, diamonds and their variants with base / no-value leaves
    {
        let n = 5usize;
        let mut shapes: Vec<Vec<Vec<usize>>> = vec![];
        let chain = |leaf: Vec<usize>| -> Vec<Vec<usize>> { (0..n).map(|i| if i + 1 < n { vec![i + 1] } else { leaf.clone() }).collect() };
        shapes.push(chain(vec![n]));
        shapes.push(chain(vec![n + 1]));
        shapes.push(chain(vec![]));
        shapes.push(chain(vec![0])); // 5-cycle
        shapes.push((0..n).map(|i| if i == 0 { vec![n] } else { vec![i - 1] }).collect()); // reversed chain
        shapes.push(vec![vec![1, 2], vec![3], vec![3], vec![4], vec![n]]); // diamond
        shapes.push(vec![vec![1, 2], vec![3], vec![3], vec![4], vec![n + 1]]);
        shapes.push(vec![vec![1, 2], vec![3], vec![3], vec![4, 0], vec![n]]); // diamond closing a cycle
        shapes.push(vec![vec![1, 2, 3, 4], vec![2, 3, 4], vec![3, 4], vec![4], vec![n]]); // complete DAG
        shapes.push(vec![vec![n], vec![n], vec![0, 1], vec![2, n], vec![3, 2, 1, 0]]);
        let perms = permutations(n);
        graphs_total += shapes.len() as u64;
        ctx.par(shapes.len() * perms.len(), |l, i| {
            let case = Case::Graph { n, members: shapes[i / perms.len()].clone(), perm: perms[i % perms.len()].clone(), times_zero: false };
            check_case(l, &case);
            check_case(l, &Case::Graph { n, members: shapes[i / perms.len()].clone(), perm: perms[i % perms.len()].clone(), times_zero: true });
        });
    }
    stop_wd.store(true, Ordering::Relaxed);
    let _ = wd.join();
    ctx.note("dependency_graphs", json!(graphs_total));
    Finish {
        level: "model_checking",
        rule: "(1) Function::substitute: function family x every replacement map over keys {1,2,7,9} with each entry from 7 replacement shapes incl. an unnormalised one (8^4 maps incl. the empty one; replacements mention other replaced ids to test simultaneity); (1b) long functions (31..100 terms) under four replacement maps; (1c) small functions and maps with ids 0 / 2^32+3 / u64::MAX; (2) Instance::substitute: instance family (replaced variables with and without finite bounds that the replacement values exceed) x first map (incl. an unnormalised linear replacement) x optional second map (chain) x states, under every iteration order of the dependency map (hook H1), composed instance compared as polynomials and the Solution compared with the original evaluated at the completed state, and evaluate_samples over two states (both orders) compared with evaluate; log_encode->substitute->evaluate on every bit pattern; (3) every dependency graph on n dependents (each sums any subset of {other dependents, itself, a valued variable, a value-less variable}) x every one of the n! iteration orders through the real Instance::evaluate (and, once per graph, Instance::evaluate_samples), oracle = Kahn; watchdog turns a hang into a violation".into(),
        bounds: json!({"graph_n_max_exhaustive": max_n, "graph_n5": "chains/cycles/diamonds/complete DAG", "replacement_keys": keys, "function_family": fs.len()}),
        exhaustive: true,
    }
}

pub fn replay(l: &mut Local, case: &serde_json::Value) -> Result<(), String> {
    let c: Case = serde_json::from_value(case.clone()).map_err(|e| e.to_string())?;
    check_case(l, &c);
    Ok(())
}

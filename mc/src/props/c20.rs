//! C20 — artifacts return what was stored in them.

use crate::engine::*;
use crate::refmodel::msg::*;
use chrono::{DateTime, Local as LocalTz};
use ommx::artifact::{media_types, Artifact, Builder, InstanceAnnotations, ParametricInstanceAnnotations, SampleSetAnnotations, SolutionAnnotations};
use ommx::ocipkg::{self, oci_spec::image::Descriptor, Digest};
use ommx::{v1, Message};
use serde::{Deserialize, Serialize};
use serde_json::json;
use sha2::{Digest as _, Sha256};
use std::collections::{BTreeMap, HashMap};

#[derive(Clone, Copy, Debug, Serialize, Deserialize, PartialEq, Eq)]
pub struct LayerRep {
    /// 0 instance, 1 parametric instance, 2 solution (State), 3 sample set
    pub kind: u8,
    /// 0 = default (empty) message: zero bytes, identical for all four kinds, so digests collide
    /// 1 = non-trivial message of that kind; 2 = a second non-trivial message
    pub variant: u8,
    pub annotated: bool,
}

#[derive(Clone, Debug, Serialize, Deserialize)]
pub enum Case {
    Sequence { layers: Vec<LayerRep> },
    /// annotation accessors: type 0..3, the fields set (by index into that type's field list)
    Annotations { kind: u8, fields: Vec<usize> },
    ForeignArtifactType,
    /// a plain OCI image manifest without any artifactType that carries a layer with an OMMX media type
    NoArtifactType,
    /// an archive written by another conforming implementation (ocipkg directly, published media types)
    ForeignLayers { layers: Vec<LayerRep> },
}

thread_local! {
    static SCRATCH: std::cell::RefCell<Option<(Scratch, u64)>> = const { std::cell::RefCell::new(None) };
}

fn scratch_file() -> std::path::PathBuf {
    SCRATCH.with(|s| {
        let mut s = s.borrow_mut();
        if s.is_none() {
            *s = Some((Scratch::new(&format!("c20-{:?}", std::thread::current().id()).replace(['(', ')'], "")), 0));
        }
        let (sc, n) = s.as_mut().unwrap();
        *n += 1;
        sc.path(&format!("a{n}.ommx"))
    })
}

/// Published media types (ARTIFACT.md and the Python SDK), as literals: the reference must not be
/// derived from the SDK's own constants.
pub const MEDIA_TYPES: [&str; 4] = [
    "application/org.ommx.v1.instance",
    "application/org.ommx.v1.parametric-instance",
    "application/org.ommx.v1.solution",
    "application/org.ommx.v1.sample-set",
];
pub const ARTIFACT_TYPE: &str = "application/org.ommx.v1.artifact";
const KIND_NAMES: [&str; 4] = ["instance", "parametric-instance", "solution", "sample-set"];

fn media_type_of(kind: u8) -> ocipkg::distribution::MediaType {
    ocipkg::distribution::MediaType::Other(MEDIA_TYPES[kind as usize].to_string())
}

fn instance_msg(variant: u8) -> v1::Instance {
    if variant == 0 {
        return v1::Instance::default();
    }
    InstRep {
        sense: if variant == 1 { SENSE_MIN } else { SENSE_MAX },
        // every list is stored as given: unsorted ids, unsorted and repeated terms
        objective: Some(FnRep::Lin { terms: vec![(2, -0.5), (1, 1.0), (2, 0.25)], c: variant as f64 }),
        vars: vec![VarRep::new(2, KIND_CONTINUOUS, Some((0.0, 2.0))), VarRep::new(7, KIND_INTEGER, None), VarRep::new(1, KIND_BINARY, None)],
        constraints: vec![
            ConRep::new(40, LE_ZERO, Some(FnRep::Lin { terms: vec![(1, 1.0)], c: -1.0 })).with_meta("c"),
            ConRep::new(3, EQ_ZERO, Some(FnRep::Quad { entries: vec![(2, 1, 1.0)], lin: None })),
        ],
        removed: vec![RemRep { constraint: ConRep::new(5, LE_ZERO, Some(FnRep::Const(-1.0))), reason: "r".into(), parameters: vec![] }],
        description_name: Some(format!("instance-{variant}")),
        ..Default::default()
    }
    .to_msg()
}

fn bytes_of(l: &LayerRep) -> Vec<u8> {
    match l.kind {
        0 => instance_msg(l.variant).encode_to_vec(),
        1 => {
            let mut p = v1::ParametricInstance::from(instance_msg(l.variant));
            if l.variant > 0 {
                for id in [20 + l.variant as u64, 10 + l.variant as u64] {
                    let mut x = v1::Parameter::default();
                    x.id = id;
                    x.name = Some("p".into());
                    p.parameters.push(x);
                }
            }
            p.encode_to_vec()
        }
        2 => {
            if l.variant == 0 {
                v1::State::default().encode_to_vec()
            } else {
                // the only entry has id 0 (field 1 of the map entry is then absent on the wire)
                mk_state(&[(0, l.variant as f64 + 0.5)]).encode_to_vec()
            }
        }
        _ => {
            let mut s = v1::SampleSet::default();
            if l.variant > 0 {
                s.sense = l.variant as i32;
                // one entry per map: a prost map with several entries has no deterministic encoding order
                s.feasible = [(7u64, true)].into_iter().collect();
                if l.variant == 1 {
                    // the field layout of an earlier release (tag 6 set, tag 7 absent): stored as it is
                    #[allow(deprecated)]
                    {
                        s.feasible_unrelaxed = [(7u64, false)].into_iter().collect();
                    }
                } else {
                    s.feasible_relaxed = [(7u64, true)].into_iter().collect();
                }
            }
            s.encode_to_vec()
        }
    }
}

fn instant(k: usize) -> DateTime<LocalTz> {
    let s = ["2024-02-29T23:59:59.123456789+09:00", "1999-12-31T00:00:00-05:30", "2031-07-01T12:34:56.5Z"][k % 3];
    DateTime::parse_from_rfc3339(s).expect("ENGINE: instant").with_timezone(&LocalTz)
}

fn digest_of(tag: u8) -> Digest {
    Digest::new(&format!("sha256:{}", format!("{tag:02x}").repeat(32))).expect("ENGINE: digest")
}

/// field lists: (name, setter applied to a generic annotation wrapper)
const INSTANCE_FIELDS: [&str; 10] = ["title", "authors1", "authors3", "created", "license", "dataset", "variables", "constraints", "other", "created-subsecond"];
const SOLUTION_FIELDS: [&str; 7] = ["start", "end", "instance", "solver", "parameters", "other", "start-offset"];

macro_rules! set_instance_like {
    ($a:expr, $f:expr, $salt:expr) => {
        match $f {
            "title" => $a.set_title(format!("title-{} ", $salt)),
            "authors1" => $a.set_authors(vec![format!("Ada Lovelace {}", $salt)]),
            "authors3" => $a.set_authors(vec![String::new(), " A. One".to_string(), format!("B Two {} ", $salt), "C-Three".to_string()]),
            "created" => $a.set_created(instant(1)),
            "created-subsecond" => $a.set_created(instant(0)),
            "license" => $a.set_license(format!("MIT-{}", $salt)),
            "dataset" => $a.set_dataset(format!(" miplib-{}", $salt)),
            "variables" => $a.set_variables(12345 + $salt),
            "constraints" => $a.set_constraints(678 + $salt),
            "other" => {
                // set twice: the value that was set last is the value
                $a.set_other("org.example.key".to_string(), "first value".to_string());
                $a.set_other("org.example.key".to_string(), format!("user value, with comma {}", $salt));
                // an empty value is a value
                $a.set_other("org.example.empty".to_string(), String::new());
            }
            _ => panic!("ENGINE: field"),
        }
    };
}

macro_rules! check_instance_like {
    ($a:expr, $f:expr, $salt:expr, $bad:expr) => {
        match $f {
            "title" => {
                if $a.title().ok().map(|s| s.as_str()) != Some(format!("title-{} ", $salt).as_str()) {
                    $bad.push(format!("title read back as {:?}", $a.title().ok()));
                }
            }
            "authors1" => {
                let got: Option<Vec<String>> = $a.authors().ok().map(|i| i.map(|s| s.to_string()).collect());
                if got != Some(vec![format!("Ada Lovelace {}", $salt)]) {
                    $bad.push(format!("authors read back as {got:?}"));
                }
            }
            "authors3" => {
                let got: Option<Vec<String>> = $a.authors().ok().map(|i| i.map(|s| s.to_string()).collect());
                if got != Some(vec![String::new(), " A. One".to_string(), format!("B Two {} ", $salt), "C-Three".to_string()]) {
                    $bad.push(format!("authors read back as {got:?}"));
                }
            }
            "created" => {
                if $a.created().ok() != Some(instant(1)) {
                    $bad.push(format!("created read back as {:?}, set {:?}", $a.created().ok(), instant(1)));
                }
            }
            "created-subsecond" => {
                if $a.created().ok() != Some(instant(0)) {
                    $bad.push(format!("created read back as {:?}, set {:?}", $a.created().ok(), instant(0)));
                }
            }
            "license" => {
                if $a.license().ok().map(|s| s.as_str()) != Some(format!("MIT-{}", $salt).as_str()) {
                    $bad.push(format!("license read back as {:?}", $a.license().ok()));
                }
            }
            "dataset" => {
                if $a.dataset().ok().map(|s| s.as_str()) != Some(format!(" miplib-{}", $salt).as_str()) {
                    $bad.push(format!("dataset read back as {:?}", $a.dataset().ok()));
                }
            }
            "variables" => {
                if $a.variables().ok() != Some(12345 + $salt) {
                    $bad.push(format!("variables read back as {:?}", $a.variables().ok()));
                }
            }
            "constraints" => {
                if $a.constraints().ok() != Some(678 + $salt) {
                    $bad.push(format!("constraints read back as {:?}", $a.constraints().ok()));
                }
            }
            "other" => {
                if $a.get("org.example.key").map(|s| s.as_str()) != Some(format!("user value, with comma {}", $salt).as_str()) {
                    $bad.push(format!("user key read back as {:?}", $a.get("org.example.key")));
                }
                if $a.get("org.example.empty").map(|s| s.as_str()) != Some("") {
                    $bad.push(format!("user key with an empty value read back as {:?}", $a.get("org.example.empty")));
                }
            }
            _ => panic!("ENGINE: field"),
        }
    };
}

macro_rules! set_solution_like {
    ($a:expr, $f:expr, $salt:expr) => {
        match $f {
            "start" => $a.set_start(instant(2)),
            "start-offset" => $a.set_start(instant(0)),
            "end" => $a.set_end(instant(1)),
            "instance" => $a.set_instance(digest_of(0xab)),
            "solver" => $a.set_solver(digest_of(0x12)),
            "parameters" => $a.set_parameters(BTreeMap::from([("time_limit".to_string(), 1.5 + $salt as f64), ("seed".to_string(), 3.0)])).expect("ENGINE: set_parameters"),
            "other" => {
                $a.set_other("org.example.solver.note".to_string(), "first note".to_string());
                $a.set_other("org.example.solver.note".to_string(), format!("note {}", $salt));
                $a.set_other("org.example.empty".to_string(), String::new());
            }
            _ => panic!("ENGINE: field"),
        }
    };
}

macro_rules! check_solution_like {
    ($a:expr, $f:expr, $salt:expr, $bad:expr) => {
        match $f {
            "start" => {
                if $a.start().ok() != Some(instant(2)) {
                    $bad.push(format!("start read back as {:?}", $a.start().ok()));
                }
            }
            "start-offset" => {
                if $a.start().ok() != Some(instant(0)) {
                    $bad.push(format!("start read back as {:?}", $a.start().ok()));
                }
            }
            "end" => {
                if $a.end().ok() != Some(instant(1)) {
                    $bad.push(format!("end read back as {:?}", $a.end().ok()));
                }
            }
            "instance" => {
                if $a.instance().ok().map(|d| d.to_string()) != Some(digest_of(0xab).to_string()) {
                    $bad.push(format!("instance digest read back as {:?}", $a.instance().ok().map(|d| d.to_string())));
                }
            }
            "solver" => {
                if $a.solver().ok().map(|d| d.to_string()) != Some(digest_of(0x12).to_string()) {
                    $bad.push(format!("solver digest read back as {:?}", $a.solver().ok().map(|d| d.to_string())));
                }
            }
            "parameters" => {
                let got: Option<BTreeMap<String, f64>> = $a.parameters().ok();
                if got != Some(BTreeMap::from([("time_limit".to_string(), 1.5 + $salt as f64), ("seed".to_string(), 3.0)])) {
                    $bad.push(format!("parameters read back as {got:?}"));
                }
            }
            "other" => {
                if $a.get("org.example.solver.note").map(|s| s.as_str()) != Some(format!("note {}", $salt).as_str()) {
                    $bad.push(format!("user key read back as {:?}", $a.get("org.example.solver.note")));
                }
                if $a.get("org.example.empty").map(|s| s.as_str()) != Some("") {
                    $bad.push(format!("user key with an empty value read back as {:?}", $a.get("org.example.empty")));
                }
            }
            _ => panic!("ENGINE: field"),
        }
    };
}

fn field_names(kind: u8) -> Vec<&'static str> {
    if kind <= 1 {
        INSTANCE_FIELDS.to_vec()
    } else {
        SOLUTION_FIELDS.to_vec()
    }
}

/// "full" annotation set of a layer kind: every field once (authors3, created-subsecond / start-offset variants)
fn full_fields(kind: u8) -> Vec<usize> {
    if kind <= 1 {
        vec![0, 2, 9, 4, 5, 6, 7, 8]
    } else {
        vec![6, 1, 2, 3, 4, 5]
    }
}

fn annotations_map(kind: u8, fields: &[usize], salt: usize) -> HashMap<String, String> {
    let names = field_names(kind);
    match kind {
        0 => {
            let mut a = InstanceAnnotations::default();
            for f in fields {
                set_instance_like!(a, names[*f], salt);
            }
            a.into_inner()
        }
        1 => {
            let mut a = ParametricInstanceAnnotations::default();
            for f in fields {
                set_instance_like!(a, names[*f], salt);
            }
            a.into_inner()
        }
        2 => {
            let mut a = SolutionAnnotations::default();
            for f in fields {
                set_solution_like!(a, names[*f], salt);
            }
            a.into_inner()
        }
        _ => {
            let mut a = SampleSetAnnotations::default();
            for f in fields {
                set_solution_like!(a, names[*f], salt);
            }
            a.into_inner()
        }
    }
}

fn add_layer(b: &mut Builder<ocipkg::image::OciArchiveBuilder>, l: &LayerRep, ann: HashMap<String, String>) -> anyhow::Result<()> {
    match l.kind {
        0 => b.add_instance(instance_msg(l.variant), InstanceAnnotations::from(ann)),
        1 => b.add_parametric_instance(v1::ParametricInstance::decode(bytes_of(l).as_slice())?, ParametricInstanceAnnotations::from(ann)),
        2 => b.add_solution(v1::State::decode(bytes_of(l).as_slice())?, SolutionAnnotations::from(ann)),
        _ => b.add_sample_set(v1::SampleSet::decode(bytes_of(l).as_slice())?, SampleSetAnnotations::from(ann)),
    }
}

fn sha256_digest(bytes: &[u8]) -> String {
    let h = Sha256::digest(bytes);
    format!("sha256:{}", h.iter().map(|b| format!("{b:02x}")).collect::<String>())
}

fn desc_ann(d: &Descriptor) -> BTreeMap<String, String> {
    d.annotations().as_ref().map(|m| m.iter().map(|(k, v)| (k.clone(), v.clone())).collect()).unwrap_or_default()
}

struct RefLayer {
    kind: u8,
    media: String,
    bytes: Vec<u8>,
    digest: String,
    ann: BTreeMap<String, String>,
}

fn build_and_open(layers: &[LayerRep]) -> Result<(Artifact<ocipkg::image::OciArchive>, Vec<RefLayer>, std::path::PathBuf), String> {
    let path = scratch_file();
    let mut b = Builder::new_archive_unnamed(path.clone()).map_err(|e| format!("new_archive_unnamed: {e:#}"))?;
    let mut reference = vec![];
    for (i, l) in layers.iter().enumerate() {
        let ann = if l.annotated { annotations_map(l.kind, &full_fields(l.kind), i) } else { HashMap::new() };
        let bytes = bytes_of(l);
        reference.push(RefLayer {
            kind: l.kind,
            media: media_type_of(l.kind).to_string(),
            digest: sha256_digest(&bytes),
            bytes,
            ann: ann.iter().map(|(k, v)| (k.clone(), v.clone())).collect(),
        });
        add_layer(&mut b, l, ann).map_err(|e| format!("add layer {i}: {e:#}"))?;
    }
    b.build().map_err(|e| format!("build: {e:#}"))?;
    let a = Artifact::from_oci_archive(&path).map_err(|e| format!("from_oci_archive: {e:#}"))?;
    Ok((a, reference, path))
}

pub fn check_case(l: &mut Local, case: &Case) {
    l.evaluations += 1;
    match case {
        Case::Sequence { layers } => check_sequence(l, case, layers),
        Case::Annotations { kind, fields } => check_annotations(l, case, *kind, fields),
        Case::ForeignLayers { layers } => check_foreign_layers(l, case, layers, "foreign-archive"),
        Case::NoArtifactType => {
            use ocipkg::image::ImageBuilder;
            use ocipkg::oci_spec::image::{DescriptorBuilder, ImageManifestBuilder};
            l.transitions += 1;
            l.nontrivial += 1;
            let path = scratch_file();
            let r = sdk(|| -> Result<(bool, usize), String> {
                let mut layout = ocipkg::image::OciArchiveBuilder::new_unnamed(path.clone()).map_err(|e| format!("{e:#}"))?;
                let config = layout.add_empty_json().map_err(|e| format!("{e:#}"))?;
                let blob = instance_msg(1).encode_to_vec();
                let (digest, size) = layout.add_blob(&blob).map_err(|e| format!("{e:#}"))?;
                let layer = DescriptorBuilder::default()
                    .media_type(media_type_of(0))
                    .digest(digest.to_string())
                    .size(size)
                    .annotations(HashMap::new())
                    .build()
                    .map_err(|e| format!("{e:#}"))?;
                let manifest = ImageManifestBuilder::default().schema_version(2_u32).config(config).layers(vec![layer]).build().map_err(|e| format!("{e:#}"))?;
                layout.build(manifest).map_err(|e| format!("{e:#}"))?;
                let mut a = Artifact::from_oci_archive(&path).map_err(|e| format!("{e:#}"))?;
                let ok = a.get_manifest().is_ok();
                let listed = a.get_layer_descriptors(&media_type_of(0)).map(|d| d.len()).unwrap_or(0);
                Ok((ok, listed))
            });
            let _ = std::fs::remove_file(&path);
            match r {
                Err(p) => l.violation("no-artifact-type/panic", || json!(case), p),
                Ok(Err(e)) => panic!("ENGINE: cannot build a plain OCI image: {e}"),
                Ok(Ok((ok, listed))) => {
                    if ok || listed > 0 {
                        l.violation(
                            "no-artifact-type/manifest-accepted",
                            || json!(case),
                            format!("an image whose manifest has no artifactType was treated as an OMMX artifact (get_manifest ok = {ok}, {listed} layers listed)"),
                        );
                    }
                }
            }
        }
        Case::ForeignArtifactType => {
            l.transitions += 1;
            l.nontrivial += 1;
            let path = scratch_file();
            let r = sdk(|| -> Result<bool, String> {
                let ab = ocipkg::image::OciArchiveBuilder::new_unnamed(path.clone()).map_err(|e| format!("{e:#}"))?;
                let mut b = ocipkg::image::OciArtifactBuilder::new(ab, ocipkg::distribution::MediaType::Other("application/vnd.example.not-ommx".to_string())).map_err(|e| format!("{e:#}"))?;
                b.add_layer(media_types::v1_instance(), &instance_msg(1).encode_to_vec(), HashMap::new()).map_err(|e| format!("{e:#}"))?;
                b.build().map_err(|e| format!("{e:#}"))?;
                let mut a = Artifact::from_oci_archive(&path).map_err(|e| format!("{e:#}"))?;
                Ok(a.get_manifest().is_ok())
            });
            let _ = std::fs::remove_file(&path);
            match r {
                Err(p) => l.violation("foreign-artifact-type/panic", || json!(case), p),
                Ok(Err(e)) => panic!("ENGINE: cannot build a foreign OCI artifact: {e}"),
                Ok(Ok(true)) => l.violation("foreign-artifact-type/manifest-accepted", || json!(case), "get_manifest succeeded on an image whose artifact type is not application/org.ommx.v1.artifact".into()),
                Ok(Ok(false)) => {}
            }
        }
    }
}

/// Builds an archive WITHOUT the SDK's builder (ocipkg + the published media types and annotation
/// keys) and reads it with the SDK's typed getters.
pub fn check_foreign_layers(l: &mut Local, case: &impl Serialize, layers: &[LayerRep], tag: &str) {
    l.transitions += 1;
    l.nontrivial += 1;
    let path = scratch_file();
    let r = sdk(|| -> Result<Vec<(String, String)>, String> {
        let ab = ocipkg::image::OciArchiveBuilder::new_unnamed(path.clone()).map_err(|e| format!("{e:#}"))?;
        let mut b = ocipkg::image::OciArtifactBuilder::new(ab, ocipkg::distribution::MediaType::Other(ARTIFACT_TYPE.to_string())).map_err(|e| format!("{e:#}"))?;
        let mut stored = vec![];
        for (i, ly) in layers.iter().enumerate() {
            let bytes = bytes_of(ly);
            let mut ann = HashMap::new();
            if ly.annotated {
                ann.insert(format!("org.ommx.v1.{}.{}", KIND_NAMES[ly.kind as usize], if ly.kind <= 1 { "title" } else { "parameters" }), if ly.kind <= 1 { format!("foreign-{i}") } else { "{\"k\":1.0}".to_string() });
            }
            b.add_layer(media_type_of(ly.kind), &bytes, ann.clone()).map_err(|e| format!("{e:#}"))?;
            stored.push((ly.kind, bytes, ann));
        }
        b.build().map_err(|e| format!("{e:#}"))?;
        let mut a = Artifact::from_oci_archive(&path).map_err(|e| format!("{e:#}"))?;
        let mut bad = vec![];
        if let Err(e) = a.get_manifest() {
            bad.push(("manifest-rejected".to_string(), format!("get_manifest failed on a conforming archive: {e:#}")));
        }
        for (i, (kind, bytes, _)) in stored.iter().enumerate() {
            let first = stored.iter().position(|x| x.1 == *bytes).unwrap();
            if stored[first].0 != *kind {
                continue; // digest shared with an earlier layer of another kind
            }
            let d = Digest::new(&sha256_digest(bytes)).map_err(|e| format!("{e:#}"))?;
            let kname = KIND_NAMES[*kind as usize];
            let res: Result<(Vec<u8>, Option<String>), String> = match kind {
                0 => a.get_instance(&d).map(|(m, an)| (m.encode_to_vec(), an.title().ok().cloned())).map_err(|e| format!("{e:#}")),
                1 => a.get_parametric_instance(&d).map(|(m, an)| (m.encode_to_vec(), an.title().ok().cloned())).map_err(|e| format!("{e:#}")),
                2 => a.get_solution(&d).map(|(m, an)| (m.encode_to_vec(), an.parameters::<BTreeMap<String, f64>>().ok().map(|p| format!("{p:?}")))).map_err(|e| format!("{e:#}")),
                _ => a.get_sample_set(&d).map(|(m, an)| (m.encode_to_vec(), an.parameters::<BTreeMap<String, f64>>().ok().map(|p| format!("{p:?}")))).map_err(|e| format!("{e:#}")),
            };
            match res {
                Err(e) => bad.push((format!("{kname}/published-media-type-rejected"), format!("layer {i} stored under {} is not readable through the {kname} getter: {e}", MEDIA_TYPES[*kind as usize]))),
                Ok((m, an)) => {
                    if m != *bytes {
                        bad.push((format!("{kname}/message"), format!("layer {i}: decoded message differs")));
                    }
                    if stored[first].2.is_empty() != an.is_none() {
                        bad.push((format!("{kname}/published-annotation-key-not-read"), format!("layer {i}: annotation stored under the published key is read back as {an:?}")));
                    }
                }
            }
            match a.get_layer_descriptors(&media_type_of(*kind)) {
                Ok(ds) if ds.len() == stored.iter().filter(|x| x.0 == *kind).count() => {}
                Ok(ds) => bad.push((format!("{kname}/descriptor-listing"), format!("{} descriptors listed for the published media type, {} stored", ds.len(), stored.iter().filter(|x| x.0 == *kind).count()))),
                Err(e) => bad.push((format!("{kname}/descriptor-listing"), format!("{e:#}"))),
            }
        }
        // positional listings: every layer of the kind, in stored order, with its own message
        match a.get_instances() {
            Err(e) => bad.push(("get_instances/error".to_string(), format!("{e:#}"))),
            Ok(v) => {
                let got: Vec<Vec<u8>> = v.iter().map(|(_, m)| m.encode_to_vec()).collect();
                let want: Vec<Vec<u8>> = stored.iter().filter(|x| x.0 == 0).map(|x| x.1.clone()).collect();
                if got != want {
                    bad.push(("get_instances/listing".to_string(), format!("get_instances returned {} messages, {} instance layers stored (or order / content differs)", got.len(), want.len())));
                }
            }
        }
        match a.get_solutions() {
            Err(e) => bad.push(("get_solutions/error".to_string(), format!("{e:#}"))),
            Ok(v) => {
                let got: Vec<Vec<u8>> = v.iter().map(|(_, m)| m.encode_to_vec()).collect();
                let want: Vec<Vec<u8>> = stored.iter().filter(|x| x.0 == 2).map(|x| x.1.clone()).collect();
                if got != want {
                    bad.push(("get_solutions/listing".to_string(), format!("get_solutions returned {} messages, {} solution layers stored (or order / content differs)", got.len(), want.len())));
                }
            }
        }
        Ok(bad)
    });
    let _ = std::fs::remove_file(&path);
    match r {
        Err(p) => l.violation(&format!("{tag}/panic"), || json!(case), p),
        Ok(Err(e)) => panic!("ENGINE: cannot build a foreign OCI archive: {e}"),
        Ok(Ok(bad)) => {
            for (sig, d) in bad {
                l.violation(&format!("{tag}/{sig}"), || json!(case), d);
            }
        }
    }
}

fn check_sequence(l: &mut Local, case: &Case, layers: &[LayerRep]) {
    l.transitions += layers.len() as u64 + 1;
    if layers.len() >= 2 {
        l.nontrivial += 1;
    }
    let built = sdk(|| build_and_open(layers));
    let (mut a, reference, path) = match built {
        Err(p) => return l.violation("build/panic", || json!(case), p),
        Ok(Err(e)) => return l.violation("build/error", || json!(case), format!("building or reopening the archive failed: {e}")),
        Ok(Ok(x)) => x,
    };
    let result = sdk(|| -> Vec<(String, String)> {
        let mut bad: Vec<(String, String)> = vec![];
        // 1. manifest: layers in insertion order with media types, digests and annotations
        let manifest = match a.get_manifest() {
            Ok(m) => m,
            Err(e) => return vec![("manifest/error".into(), format!("{e:#}"))],
        };
        let got: Vec<(String, String, BTreeMap<String, String>)> = manifest.layers().iter().map(|d| (d.media_type().to_string(), d.digest().to_string(), desc_ann(d))).collect();
        let want: Vec<(String, String, BTreeMap<String, String>)> = reference.iter().map(|r| (r.media.clone(), r.digest.clone(), r.ann.clone())).collect();
        if got != want {
            let brief = |v: &Vec<(String, String, BTreeMap<String, String>)>| v.iter().map(|x| (x.0.rsplit('.').next().unwrap_or("").to_string(), x.1[7..15].to_string(), x.2.len())).collect::<Vec<_>>();
            bad.push(("manifest/layers".into(), format!("manifest layers (kind, digest prefix, #annotations) {:?}, stored {:?}", brief(&got), brief(&want))));
        }
        // 2./3. by digest
        for (i, r) in reference.iter().enumerate() {
            let d = match Digest::new(&r.digest) {
                Ok(d) => d,
                Err(e) => panic!("ENGINE: digest {e}"),
            };
            let same: Vec<&RefLayer> = reference.iter().filter(|x| x.digest == r.digest).collect();
            match a.get_layer(&d) {
                Err(e) => bad.push(("get_layer/error".into(), format!("layer {i}: get_layer({}) failed: {e:#}", r.digest))),
                Ok((desc, blob)) => {
                    if blob != r.bytes {
                        bad.push(("get_layer/bytes".into(), format!("layer {i}: get_layer returned {} bytes, stored {}", blob.len(), r.bytes.len())));
                    }
                    if !same.iter().any(|x| x.media == desc.media_type().to_string() && x.ann == desc_ann(&desc)) {
                        bad.push(("get_layer/descriptor".into(), format!("layer {i}: descriptor returned by get_layer matches no stored layer with that digest")));
                    }
                }
            }
            for k in 0u8..4 {
                let first_kind = same[0].kind;
                let any_of_kind = same.iter().any(|x| x.kind == k);
                // (ok?, bytes of the decoded message re-encoded, annotations)
                let res: Result<(Vec<u8>, BTreeMap<String, String>), String> = match k {
                    0 => a.get_instance(&d).map(|(m, an)| (m.encode_to_vec(), an.into_inner().into_iter().collect())).map_err(|e| format!("{e:#}")),
                    1 => a.get_parametric_instance(&d).map(|(m, an)| (m.encode_to_vec(), an.into_inner().into_iter().collect())).map_err(|e| format!("{e:#}")),
                    2 => a.get_solution(&d).map(|(m, an)| (m.encode_to_vec(), an.into_inner().into_iter().collect())).map_err(|e| format!("{e:#}")),
                    _ => a.get_sample_set(&d).map(|(m, an)| (m.encode_to_vec(), an.into_inner().into_iter().collect())).map_err(|e| format!("{e:#}")),
                };
                let kname = ["instance", "parametric-instance", "solution", "sample-set"][k as usize];
                if !any_of_kind {
                    if res.is_ok() {
                        bad.push((format!("typed-getter/{kname}/wrong-type-accepted"), format!("layer {i} (digest {}) is stored only as {:?}, but the {kname} getter succeeded", &r.digest[..15], same.iter().map(|x| x.kind).collect::<Vec<_>>())));
                    }
                } else if first_kind == k {
                    let first = same[0];
                    match res {
                        Err(e) => bad.push((format!("typed-getter/{kname}/error"), format!("layer {i}: {kname} getter failed: {e}"))),
                        Ok((bytes, an)) => {
                            // messages here contain at most single-entry maps, so re-encoding is deterministic
                            if bytes != first.bytes {
                                bad.push((format!("typed-getter/{kname}/message"), format!("layer {i}: the decoded message differs from the stored one")));
                            }
                            if an != first.ann {
                                bad.push((format!("typed-getter/{kname}/annotations"), format!("layer {i}: annotations {an:?}, stored {:?}", first.ann)));
                            }
                        }
                    }
                }
                // else: a layer of this kind exists under the digest but an earlier layer of another kind
                // shares it; which one a digest-only lookup returns is not fixed by the property
            }
        }
        // 4. unknown digests: other hex; the hex of a stored layer under another algorithm
        let mut unknowns = vec![digest_of(0xee)];
        for r in reference.iter().take(2) {
            let hex = r.digest.trim_start_matches("sha256:");
            for alg in ["sha512", "blake3"] {
                if let Ok(d) = Digest::new(&format!("{alg}:{hex}")) {
                    unknowns.push(d);
                }
            }
        }
        for unknown in &unknowns {
            if a.get_layer(unknown).is_ok() || a.get_instance(unknown).is_ok() || a.get_parametric_instance(unknown).is_ok() || a.get_solution(unknown).is_ok() || a.get_sample_set(unknown).is_ok() {
                bad.push(("unknown-digest-accepted".into(), format!("a getter succeeded for the digest {unknown}, which is not in the archive")));
                break;
            }
        }
        // 5. per-kind descriptor lists are the sub-sequences
        for k in 0u8..4 {
            match a.get_layer_descriptors(&media_type_of(k)) {
                Err(e) => bad.push(("layer-descriptors/error".into(), format!("{e:#}"))),
                Ok(ds) => {
                    let got: Vec<(String, BTreeMap<String, String>)> = ds.iter().map(|d| (d.digest().to_string(), desc_ann(d))).collect();
                    let want: Vec<(String, BTreeMap<String, String>)> = reference.iter().filter(|r| r.kind == k).map(|r| (r.digest.clone(), r.ann.clone())).collect();
                    if got != want {
                        bad.push(("layer-descriptors/sub-sequence".into(), format!("descriptors of kind {k}: {} returned, {} stored, or order / annotations differ", got.len(), want.len())));
                    }
                }
            }
        }
        // 6. positional listing getters
        match a.get_instances() {
            Err(e) => bad.push(("get_instances/error".into(), format!("{e:#}"))),
            Ok(v) => {
                let got: Vec<(String, BTreeMap<String, String>, Vec<u8>)> = v.iter().map(|(d, m)| (d.media_type().to_string(), desc_ann(d), m.encode_to_vec())).collect();
                let want: Vec<(String, BTreeMap<String, String>, Vec<u8>)> = reference.iter().filter(|r| r.kind == 0).map(|r| (r.media.clone(), r.ann.clone(), r.bytes.clone())).collect();
                if got != want {
                    bad.push(("get_instances/listing".into(), format!("get_instances returned {} entries that differ from the {} stored instance layers (order, descriptor annotations / media type, or message)", got.len(), want.len())));
                }
            }
        }
        match a.get_solutions() {
            Err(e) => bad.push(("get_solutions/error".into(), format!("{e:#}"))),
            Ok(v) => {
                let got: Vec<(String, BTreeMap<String, String>, Vec<u8>)> = v.iter().map(|(d, m)| (d.media_type().to_string(), desc_ann(d), m.encode_to_vec())).collect();
                let want: Vec<(String, BTreeMap<String, String>, Vec<u8>)> = reference.iter().filter(|r| r.kind == 2).map(|r| (r.media.clone(), r.ann.clone(), r.bytes.clone())).collect();
                if got != want {
                    bad.push(("get_solutions/listing".into(), format!("get_solutions returned {} entries that differ from the {} stored solution layers", got.len(), want.len())));
                }
            }
        }
        bad
    });
    let _ = std::fs::remove_file(&path);
    l.outcome(&reference.iter().map(|r| (r.kind, r.digest.clone(), r.ann.len())).collect::<Vec<_>>());
    match result {
        Err(p) => l.violation("read/panic", || json!(case), p),
        Ok(bad) => {
            for (sig, d) in bad {
                l.violation(&sig, || json!(case), d);
            }
        }
    }
}

fn check_annotations(l: &mut Local, case: &Case, kind: u8, fields: &[usize]) {
    l.transitions += 1;
    if fields.len() >= 2 {
        l.nontrivial += 1;
    }
    let names = field_names(kind);
    let salt = 7usize;
    let layer = LayerRep { kind, variant: 1, annotated: false };
    let ann = annotations_map(kind, fields, salt);
    l.outcome(&(kind, fields));
    for k in ann.keys() {
        let field = names.iter().map(|n| n.split('-').next().unwrap().trim_end_matches(char::is_numeric)).find(|n| k.ends_with(&format!(".{n}")));
        let want = field.map(|f| format!("org.ommx.v1.{}.{f}", KIND_NAMES[kind as usize]));
        if !k.starts_with("org.example.") && want.as_deref() != Some(k.as_str()) {
            l.violation(
                &format!("annotations/{}/key-not-the-published-one", KIND_NAMES[kind as usize]),
                || json!(case),
                format!("annotation stored under key {k}; published keys have the form org.ommx.v1.{}.<field>", KIND_NAMES[kind as usize]),
            );
        }
    }
    let r = sdk(|| -> Result<Vec<String>, String> {
        let path = scratch_file();
        let mut b = Builder::new_archive_unnamed(path.clone()).map_err(|e| format!("{e:#}"))?;
        add_layer(&mut b, &layer, ann.clone()).map_err(|e| format!("{e:#}"))?;
        b.build().map_err(|e| format!("{e:#}"))?;
        let mut a = Artifact::from_oci_archive(&path).map_err(|e| format!("{e:#}"))?;
        let d = Digest::new(&sha256_digest(&bytes_of(&layer))).map_err(|e| format!("{e:#}"))?;
        let mut bad: Vec<String> = vec![];
        match kind {
            0 => {
                let (_, an) = a.get_instance(&d).map_err(|e| format!("{e:#}"))?;
                for f in fields {
                    check_instance_like!(an, names[*f], salt, bad);
                }
            }
            1 => {
                let (_, an) = a.get_parametric_instance(&d).map_err(|e| format!("{e:#}"))?;
                for f in fields {
                    check_instance_like!(an, names[*f], salt, bad);
                }
            }
            2 => {
                let (_, an) = a.get_solution(&d).map_err(|e| format!("{e:#}"))?;
                for f in fields {
                    check_solution_like!(an, names[*f], salt, bad);
                }
            }
            _ => {
                let (_, an) = a.get_sample_set(&d).map_err(|e| format!("{e:#}"))?;
                for f in fields {
                    check_solution_like!(an, names[*f], salt, bad);
                }
            }
        }
        let _ = std::fs::remove_file(&path);
        Ok(bad)
    });
    let kname = ["instance", "parametric-instance", "solution", "sample-set"][kind as usize];
    match r {
        Err(p) => l.violation(&format!("annotations/{kname}/panic"), || json!(case), p),
        Ok(Err(e)) => l.violation(&format!("annotations/{kname}/error"), || json!(case), e),
        Ok(Ok(bad)) => {
            if !bad.is_empty() {
                l.violation(
                    &format!("annotations/{kname}/value-differs"),
                    || json!(case),
                    format!("fields set: {:?}; {}", fields.iter().map(|f| names[*f]).collect::<Vec<_>>(), bad.join("; ")),
                );
            }
        }
    }
}

pub fn run(ctx: &Ctx) -> Finish {
    let t = ctx.tier == Tier::Thorough;
    // action alphabet: 4 kinds x variant {empty, B} x annotations {none, full}
    let mut actions: Vec<LayerRep> = vec![];
    for kind in 0..4u8 {
        for variant in [0u8, 1] {
            for annotated in [false, true] {
                actions.push(LayerRep { kind, variant, annotated });
            }
        }
    }
    let full_len = ctx.tier.pick(3, 4);
    let mut total = 0usize;
    for len in 0..=full_len {
        let seqs = sequences(actions.len(), len);
        total += seqs.len();
        ctx.par(seqs.len(), |l, i| {
            l.states += 1;
            let case = Case::Sequence { layers: seqs[i].iter().map(|k| actions[*k]).collect() };
            if len == 3 && ctx.want_sample(i as u64) {
                l.samples.push((i as u64, json!(case)));
            }
            check_case(l, &case);
        });
    }
    // longer histories over a 4-action sub-alphabet (quick: up to 5 over 3 actions)
    let sub: Vec<LayerRep> = vec![
        LayerRep { kind: 0, variant: 1, annotated: true },
        LayerRep { kind: 2, variant: 0, annotated: false },
        LayerRep { kind: 0, variant: 0, annotated: true },
        LayerRep { kind: 3, variant: 1, annotated: false },
    ];
    let sub_n = if t { 4 } else { 3 };
    for len in (full_len + 1)..=ctx.tier.pick(5, 6) {
        let seqs = sequences(sub_n, len);
        total += seqs.len();
        ctx.par(seqs.len(), |l, i| {
            l.states += 1;
            check_case(l, &Case::Sequence { layers: seqs[i].iter().map(|k| sub[*k]).collect() });
        });
    }
    // second non-trivial variant: same kind, different messages, in pairs
    ctx.seq(|l| {
        for kind in 0..4u8 {
            for (v1_, v2) in [(1u8, 2u8), (2, 1), (2, 2)] {
                check_case(l, &Case::Sequence { layers: vec![LayerRep { kind, variant: v1_, annotated: true }, LayerRep { kind, variant: v2, annotated: false }] });
            }
        }
    });
    ctx.note("archives_built", json!(total));
    // annotation accessors: every single field and every pair of fields, plus all fields at once
    for kind in 0..4u8 {
        let n = field_names(kind).len();
        let mut sets: Vec<Vec<usize>> = (0..n).map(|i| vec![i]).collect();
        for i in 0..n {
            for j in 0..n {
                // the two authors / created / start variants write the same key on purpose: skip those pairs
                let same_key = |a: usize, b: usize| {
                    let (x, y) = (field_names(kind)[a], field_names(kind)[b]);
                    x.split('-').next().unwrap().trim_end_matches(char::is_numeric) == y.split('-').next().unwrap().trim_end_matches(char::is_numeric)
                };
                if i != j && !same_key(i, j) {
                    sets.push(vec![i, j]);
                }
            }
        }
        sets.push(full_fields(kind));
        ctx.par(sets.len(), |l, i| {
            check_case(l, &Case::Annotations { kind, fields: sets[i].clone() });
        });
    }
    ctx.seq(|l| check_case(l, &Case::ForeignArtifactType));
    ctx.seq(|l| check_case(l, &Case::NoArtifactType));
    // archives written by another conforming implementation: every kind alone and all pairs of kinds
    ctx.seq(|l| {
        for a in 0..4u8 {
            for annotated in [false, true] {
                check_case(l, &Case::ForeignLayers { layers: vec![LayerRep { kind: a, variant: 1, annotated }] });
            }
            for b in 0..4u8 {
                check_case(l, &Case::ForeignLayers { layers: vec![LayerRep { kind: a, variant: 1, annotated: true }, LayerRep { kind: b, variant: 2, annotated: false }] });
            }
        }
    });
    ctx.assume("Published media types and annotation keys are literals in the harness (ARTIFACT.md; python SDK): application/org.ommx.v1.{instance,parametric-instance,solution,sample-set}, org.ommx.v1.<kind>.<field>.");
    ctx.assume("When several layers share a digest (equal bytes), a digest-only lookup cannot distinguish them: the typed getter is asserted against the first layer with that digest when that layer has the requested kind, must fail when no layer with that digest has the requested kind, and is not asserted otherwise. Positional listings (manifest, get_layer_descriptors, get_instances, get_solutions) are asserted strictly.");
    Finish {
        level: "model_checking",
        rule: "every sequence of add operations over the 16-action alphabet (4 layer kinds x {empty message whose bytes coincide across kinds, non-trivial message} x {no annotations, all annotations}) up to the full length, longer histories over a 4-action sub-alphabet; each history is replayed from scratch through the real Builder into a local OCI archive, reopened with Artifact::from_oci_archive and compared with a Vec<(media type, bytes, annotations)> reference: manifest order/media types/sha256 digests/annotations, get_layer by digest, typed getters (right kind returns equal message and annotations, other kinds fail), unknown digest fails, per-kind descriptor sub-sequences, positional listings; annotation accessors for every single field, every pair of fields and all fields at once after the archive round trip; an image with a foreign artifact type must not yield a manifest; non-trivial = at least two layers / two fields".into(),
        bounds: json!({"full_alphabet_length_max": full_len, "sub_alphabet_length_max": ctx.tier.pick(5,6), "actions": actions.len()}),
        exhaustive: true,
    }
}

pub fn replay(l: &mut Local, case: &serde_json::Value) -> Result<(), String> {
    let c: Case = serde_json::from_value(case.clone()).map_err(|e| e.to_string())?;
    check_case(l, &c);
    Ok(())
}

//! C03 — partial evaluation commutes with evaluation (functions, constraints, instances).

use crate::engine::*;
use crate::refmodel::family::*;
use crate::refmodel::inst::*;
use crate::refmodel::msg::*;
use crate::refmodel::poly::*;
use ommx::{v1, Evaluate};
use serde::{Deserialize, Serialize};
use serde_json::json;
use std::collections::BTreeSet;

#[derive(Clone, Debug, Serialize, Deserialize)]
pub enum Case {
    Fun {
        f: FnRep,
        state: Vec<(u64, f64)>,
        first: Vec<u64>,
        second: Vec<u64>,
    },
    Con {
        removed: bool,
        function: Option<FnRep>,
        state: Vec<(u64, f64)>,
        fixed: Vec<u64>,
    },
    Inst {
        inst: InstRep,
        state: Vec<(u64, f64)>,
        first: Vec<u64>,
        second: Vec<u64>,
    },
}

fn restrict(state: &[(u64, f64)], ids: &[u64]) -> Vec<(u64, f64)> {
    state.iter().filter(|(i, _)| ids.contains(i)).cloned().collect()
}
fn without(state: &[(u64, f64)], ids: &[u64]) -> Vec<(u64, f64)> {
    state.iter().filter(|(i, _)| !ids.contains(i)).cloned().collect()
}

/// IDs occurring in a listed term with a non-zero coefficient.
fn nonzero_ids(f: &FnRep) -> BTreeSet<u64> {
    let mut s = BTreeSet::new();
    match f {
        FnRep::Unset | FnRep::Const(_) => {}
        FnRep::Lin { terms, .. } => s.extend(terms.iter().filter(|t| t.1 != 0.0).map(|t| t.0)),
        FnRep::Quad { entries, lin } => {
            for e in entries.iter().filter(|e| e.2 != 0.0) {
                s.insert(e.0);
                s.insert(e.1);
            }
            if let Some((t, _)) = lin {
                s.extend(t.iter().filter(|t| t.1 != 0.0).map(|t| t.0));
            }
        }
        FnRep::Poly { terms } => {
            for (ids, c) in terms {
                if *c != 0.0 {
                    s.extend(ids.iter().cloned());
                }
            }
        }
    }
    s
}

/// Checks (a)-(d) of DESIGN.md for one partial-evaluation step on a function message.
#[allow(clippy::too_many_arguments)]
fn check_step(
    l: &mut Local,
    sig: &str,
    case: &Case,
    before: &Poly,
    occ: &BTreeSet<u64>,
    occ_nonzero: &BTreeSet<u64>,
    after: &v1::Function,
    returned: &BTreeSet<u64>,
    fixed: &[(u64, f64)],
    remaining: &[(u64, f64)],
    full: &[(u64, f64)],
) {
    let fixed_ids: BTreeSet<u64> = fixed.iter().map(|f| f.0).collect();
    let expected = before.partial(&qstate(fixed));
    match poly_of_function(after) {
        Err(e) => l.violation(&format!("{sig}/unreadable"), || json!(case), e),
        Ok(got) => {
            if got != expected {
                l.violation(
                    &format!("{sig}/wrong-polynomial"),
                    || json!(case),
                    format!(
                        "partial_evaluate of {} with {:?}: message now represents {}, exact partial evaluation is {}",
                        before.show(),
                        fixed,
                        got.show(),
                        expected.show()
                    ),
                );
            }
        }
    }
    let still: Vec<u64> = ids_of_function(after).intersection(&fixed_ids).cloned().collect();
    if !still.is_empty() {
        l.violation(
            &format!("{sig}/fixed-id-still-mentioned"),
            || json!(case),
            format!("after partial_evaluate with {fixed:?} the message still mentions fixed id(s) {still:?}"),
        );
    }
    let upper: BTreeSet<u64> = occ.intersection(&fixed_ids).cloned().collect();
    let lower: BTreeSet<u64> = occ_nonzero.intersection(&fixed_ids).cloned().collect();
    if !returned.is_subset(&upper) || !lower.is_subset(returned) {
        l.violation(
            &format!("{sig}/returned-ids"),
            || json!(case),
            format!("partial_evaluate returned ids {returned:?}; must contain {lower:?} and be contained in {upper:?}"),
        );
    }
    // (d) evaluating the remainder gives the value at the combined state
    let occ_missing = occ.iter().any(|i| !full.iter().any(|(j, _)| j == i));
    if !occ_missing {
        let exact = before.eval(&qstate(full)).unwrap();
        match sdk(|| after.evaluate(&mk_state(remaining)).map_err(|e| format!("{e:#}"))) {
            Err(p) => l.violation(&format!("{sig}/panic"), || json!(case), p),
            Ok(Err(e)) => l.violation(
                &format!("{sig}/remainder-not-evaluable"),
                || json!(case),
                format!("evaluating the partially evaluated function at the remaining variables {remaining:?} failed: {e}"),
            ),
            Ok(Ok((v, _))) => {
                if q_opt(v).as_ref() != Some(&exact) {
                    l.violation(
                        &format!("{sig}/remainder-value"),
                        || json!(case),
                        format!("partial_evaluate({fixed:?}) then evaluate({remaining:?}) = {v}; original at the combined state = {}", qs(&exact)),
                    );
                }
            }
        }
    }
}

fn pe(f: &mut v1::Function, st: &[(u64, f64)]) -> Result<Result<BTreeSet<u64>, String>, String> {
    let s = mk_state(st);
    sdk(|| f.partial_evaluate(&s).map_err(|e| format!("{e:#}")))
}

/// Same step through the concrete type's own impl (Linear/Quadratic/Polynomial), returned as a Function.
fn pe_inner(f: &v1::Function, st: &[(u64, f64)]) -> Option<Result<Result<(v1::Function, BTreeSet<u64>), String>, String>> {
    use v1::function::Function as FE;
    let s = mk_state(st);
    match &f.function {
        Some(FE::Linear(x)) => {
            let mut x = x.clone();
            Some(sdk(|| x.partial_evaluate(&s).map(|u| (v1::Function::from(x.clone()), u)).map_err(|e| format!("{e:#}"))))
        }
        Some(FE::Quadratic(x)) => {
            let mut x = x.clone();
            Some(sdk(|| x.partial_evaluate(&s).map(|u| (v1::Function::from(x.clone()), u)).map_err(|e| format!("{e:#}"))))
        }
        Some(FE::Polynomial(x)) => {
            let mut x = x.clone();
            Some(sdk(|| x.partial_evaluate(&s).map(|u| (v1::Function::from(x.clone()), u)).map_err(|e| format!("{e:#}"))))
        }
        _ => None,
    }
}

pub fn check_case(l: &mut Local, case: &Case) {
    l.evaluations += 1;
    match case {
        Case::Fun { f, state, first, second } => {
            let v = f.variant();
            let before = f.poly();
            let occ = f.occurring_ids();
            let occ_nz = nonzero_ids(f);
            if !before.is_zero() && !first.is_empty() {
                l.nontrivial += 1;
            }
            let s1 = restrict(state, first);
            let rest1 = without(state, first);
            let msg0 = f.to_msg();
            let mut m1 = msg0.clone();
            l.transitions += 1;
            let u1 = match pe(&mut m1, &s1) {
                Err(p) => return l.violation(&format!("{v}/panic"), || json!(case), p),
                Ok(Err(e)) => return l.violation(&format!("{v}/error"), || json!(case), format!("partial_evaluate failed: {e}")),
                Ok(Ok(u)) => u,
            };
            l.outcome(&before.partial(&qstate(&s1)));
            check_step(l, v, case, &before, &occ, &occ_nz, &m1, &u1, &s1, &rest1, state);
            if let Some(r) = pe_inner(&msg0, &s1) {
                l.transitions += 1;
                match r {
                    Err(p) => l.violation(&format!("{v}/panic"), || json!(case), p),
                    Ok(Err(e)) => l.violation(&format!("{v}/error"), || json!(case), e),
                    Ok(Ok((m, u))) => check_step(l, &format!("{v}(direct)"), case, &before, &occ, &occ_nz, &m, &u, &s1, &rest1, state),
                }
            }
            if !second.is_empty() {
                // two steps ≡ one step
                let s2 = restrict(state, second);
                let both: Vec<u64> = first.iter().chain(second.iter()).cloned().collect();
                let s12 = restrict(state, &both);
                let rest12 = without(state, &both);
                let mut m12 = m1.clone();
                l.transitions += 1;
                let mid = match poly_of_function(&m1) {
                    Ok(p) => p,
                    Err(_) => return,
                };
                match pe(&mut m12, &s2) {
                    Err(p) => l.violation(&format!("{v}/panic"), || json!(case), p),
                    Ok(Err(e)) => l.violation(&format!("{v}/error"), || json!(case), e),
                    Ok(Ok(u2)) => {
                        let occ_mid = ids_of_function(&m1);
                        check_step(l, &format!("{v}/second-step"), case, &mid, &occ_mid, &mid.vars(), &m12, &u2, &s2, &rest12, &without(state, first));
                        let mut once = msg0.clone();
                        l.transitions += 1;
                        if let Ok(Ok(_)) = pe(&mut once, &s12) {
                            let (a, b) = (poly_of_function(&m12), poly_of_function(&once));
                            if let (Ok(a), Ok(b)) = (a, b) {
                                if a != b {
                                    l.violation(
                                        &format!("{v}/two-steps-differ-from-one"),
                                        || json!(case),
                                        format!("fixing {first:?} then {second:?} gives {}, fixing both at once gives {}", a.show(), b.show()),
                                    );
                                }
                            }
                        }
                    }
                }
            }
        }
        Case::Con { removed, function, state, fixed } => {
            let s1 = restrict(state, fixed);
            let rest = without(state, fixed);
            let con = ConRep::new(5, LE_ZERO, function.clone()).with_meta("c");
            let before = con.poly();
            let occ = function.as_ref().map_or_else(BTreeSet::new, |f| f.occurring_ids());
            let occ_nz = function.as_ref().map_or_else(BTreeSet::new, nonzero_ids);
            l.transitions += 1;
            l.outcome(&before.partial(&qstate(&s1)));
            if !before.is_zero() && !fixed.is_empty() {
                l.nontrivial += 1;
            }
            let st = mk_state(&s1);
            let (after_con, used): (v1::Constraint, BTreeSet<u64>) = if *removed {
                let rr = RemRep { constraint: con.clone(), reason: "why".into(), parameters: vec![("a".into(), "b".into())] };
                let mut m = rr.to_msg();
                match sdk(|| m.partial_evaluate(&st).map_err(|e| format!("{e:#}"))) {
                    Err(p) => return l.violation("removed-constraint/panic", || json!(case), p),
                    Ok(Err(e)) => return l.violation("removed-constraint/error", || json!(case), e),
                    Ok(Ok(u)) => {
                        if m.removed_reason != "why" || m.removed_reason_parameters.len() != 1 {
                            l.violation("removed-constraint/reason-changed", || json!(case), format!("{m:?}"));
                        }
                        (m.constraint.clone().unwrap_or_default(), u)
                    }
                }
            } else {
                let mut m = con.to_msg();
                match sdk(|| m.partial_evaluate(&st).map_err(|e| format!("{e:#}"))) {
                    Err(p) => return l.violation("constraint/panic", || json!(case), p),
                    Ok(Err(e)) => return l.violation("constraint/error", || json!(case), e),
                    Ok(Ok(u)) => (m, u),
                }
            };
            let sig = if *removed { "removed-constraint" } else { "constraint" };
            // metadata untouched
            let mut expect_view = con_view_rep(&con);
            expect_view.poly = before.partial(&qstate(&s1));
            match con_view(&after_con) {
                Ok(v) if v == expect_view => {}
                Ok(v) => l.violation(
                    &format!("{sig}/changed"),
                    || json!(case),
                    format!("after partial_evaluate the constraint is {v:?}, expected {expect_view:?}"),
                ),
                Err(e) => l.violation(&format!("{sig}/unreadable"), || json!(case), e),
            }
            let after_fn = after_con.function.clone().unwrap_or_default();
            check_step(l, sig, case, &before, &occ, &occ_nz, &after_fn, &used, &s1, &rest, state);
        }
        Case::Inst { inst, state, first, second } => check_inst(l, case, inst, state, first, second),
    }
}

fn expected_after(inst: &InstRep, fixed: &[(u64, f64)]) -> InstView {
    let qf = qstate(fixed);
    let mut v = inst_view_rep(inst);
    v.objective = v.objective.partial(&qf);
    for c in v.constraints.iter_mut() {
        c.poly = c.poly.partial(&qf);
    }
    for r in v.removed.iter_mut() {
        r.0.poly = r.0.poly.partial(&qf);
    }
    for d in v.dependencies.values_mut() {
        *d = d.partial(&qf);
    }
    for var in v.vars.iter_mut() {
        if let Some((_, x)) = fixed.iter().find(|(i, _)| *i == var.id) {
            var.substituted_value = Some(*x);
        }
    }
    v
}

fn inst_occ(inst: &InstRep, nonzero: bool) -> BTreeSet<u64> {
    let f = |x: &FnRep| if nonzero { nonzero_ids(x) } else { x.occurring_ids() };
    let mut s = BTreeSet::new();
    if let Some(o) = &inst.objective {
        s.extend(f(o));
    }
    for c in &inst.constraints {
        if let Some(x) = &c.function {
            s.extend(f(x));
        }
    }
    for r in &inst.removed {
        if let Some(x) = &r.constraint.function {
            s.extend(f(x));
        }
    }
    for (_, x) in &inst.dependencies {
        s.extend(f(x));
    }
    s
}

fn pe_inst(m: &mut v1::Instance, st: &[(u64, f64)]) -> Result<Result<BTreeSet<u64>, String>, String> {
    let s = mk_state(st);
    sdk(|| m.partial_evaluate(&s).map_err(|e| format!("{e:#}")))
}

fn check_inst(l: &mut Local, case: &Case, inst: &InstRep, state: &[(u64, f64)], first: &[u64], second: &[u64]) {
    let s1 = restrict(state, first);
    let msg0 = inst.to_msg();
    let mut m1 = msg0.clone();
    l.transitions += 1;
    if !first.is_empty() {
        l.nontrivial += 1;
    }
    let u1 = match pe_inst(&mut m1, &s1) {
        Err(p) => return l.violation("instance/panic", || json!(case), p),
        Ok(Err(e)) => return l.violation("instance/error", || json!(case), format!("Instance::partial_evaluate failed: {e}")),
        Ok(Ok(u)) => u,
    };
    let exp1 = expected_after(inst, &s1);
    l.outcome(&(&exp1.objective, exp1.constraints.iter().map(|c| c.poly.clone()).collect::<Vec<_>>()));
    let check_view = |l: &mut Local, sig: &str, m: &v1::Instance, exp: &InstView| match inst_view(m) {
        Err(e) => l.violation(&format!("instance/{sig}/unreadable"), || json!(case), e),
        Ok(got) => {
            if got.objective != exp.objective {
                l.violation(&format!("instance/{sig}/objective"), || json!(case), format!("objective is {}, expected {}", got.objective.show(), exp.objective.show()));
            }
            if got.constraints != exp.constraints {
                l.violation(&format!("instance/{sig}/constraints"), || json!(case), format!("constraints are {:?}, expected {:?}", got.constraints, exp.constraints));
            }
            if got.removed != exp.removed {
                l.violation(&format!("instance/{sig}/removed-constraints"), || json!(case), format!("removed constraints are {:?}, expected {:?}", got.removed, exp.removed));
            }
            if got.dependencies != exp.dependencies {
                l.violation(&format!("instance/{sig}/dependencies"), || json!(case), format!("dependencies are {:?}, expected {:?}", got.dependencies, exp.dependencies));
            }
            if got.vars != exp.vars {
                let sv = |v: &Vec<v1::DecisionVariable>| v.iter().map(|d| (d.id, d.substituted_value)).collect::<Vec<_>>();
                l.violation(
                    &format!("instance/{sig}/substituted-values"),
                    || json!(case),
                    format!("decision variables (id, substituted_value) are {:?}, expected {:?} (other fields unchanged)", sv(&got.vars), sv(&exp.vars)),
                );
            }
            if got.sense != exp.sense {
                l.violation(&format!("instance/{sig}/sense"), || json!(case), format!("sense {} -> {}", exp.sense, got.sense));
            }
        }
    };
    check_view(l, "one-step", &m1, &exp1);
    let fixed1: BTreeSet<u64> = first.iter().cloned().collect();
    let still: Vec<u64> = ids_in_instance(&m1).intersection(&fixed1).cloned().collect();
    if !still.is_empty() {
        l.violation("instance/fixed-id-still-mentioned", || json!(case), format!("after fixing {first:?} the instance still mentions {still:?}"));
    }
    let upper: BTreeSet<u64> = inst_occ(inst, false).intersection(&fixed1).cloned().collect();
    let lower: BTreeSet<u64> = inst_occ(inst, true).intersection(&fixed1).cloned().collect();
    if !u1.is_subset(&upper) || !lower.is_subset(&u1) {
        l.violation("instance/returned-ids", || json!(case), format!("returned ids {u1:?}; must contain {lower:?} and be contained in {upper:?}"));
    }
    // two orders and at once
    let both: Vec<u64> = first.iter().chain(second.iter()).cloned().collect();
    let s12 = restrict(state, &both);
    let mut fin = m1.clone();
    if !second.is_empty() {
        let s2 = restrict(state, second);
        let exp12 = expected_after(inst, &s12);
        l.transitions += 3;
        match pe_inst(&mut fin, &s2) {
            Ok(Ok(_)) => check_view(l, "first-then-second", &fin, &exp12),
            Ok(Err(e)) | Err(e) => l.violation("instance/second-step-error", || json!(case), e),
        }
        let mut m21 = msg0.clone();
        match pe_inst(&mut m21, &s2).and_then(|r| match r {
            Ok(_) => pe_inst(&mut m21, &s1),
            Err(e) => Ok(Err(e)),
        }) {
            Ok(Ok(_)) => check_view(l, "second-then-first", &m21, &exp12),
            Ok(Err(e)) | Err(e) => l.violation("instance/second-step-error", || json!(case), e),
        }
        let mut once = msg0.clone();
        match pe_inst(&mut once, &s12) {
            Ok(Ok(_)) => check_view(l, "at-once", &once, &exp12),
            Ok(Err(e)) | Err(e) => l.violation("instance/error", || json!(case), e),
        }
    }
    // Solution of (partial_evaluate; evaluate(rest)) vs reference evaluation of the original at the combined state
    let rest = without(state, &both);
    let mut inst_exp = inst.clone();
    for v in inst_exp.vars.iter_mut() {
        if let Some((_, x)) = s12.iter().find(|(i, _)| *i == v.id) {
            v.substituted = Some(*x);
        }
    }
    let expected = ref_evaluate(&inst_exp, state);
    l.transitions += 1;
    let rs = mk_state(&rest);
    let n = inst.dependencies.len();
    let orders = if n >= 2 { permutations(n) } else { vec![vec![]] };
    for perm in orders {
        if n >= 2 {
            ommx::verif::set_dependency_order(Some(perm));
        }
        let got = sdk(|| fin.evaluate(&rs).map_err(|e| format!("{e:#}")));
        match (&expected, got) {
            (_, Err(p)) => l.violation("instance/evaluate-panic", || json!(case), p),
            (Ok(exp), Ok(Ok((sol, _)))) => {
                for (sig, d) in compare_solution_opts(&sol, exp, &inst_exp, true, false) {
                    l.violation(&format!("instance/solution/{sig}"), || json!(case), format!("after fixing {both:?} and evaluating the rest: {d}"));
                }
            }
            (Ok(_), Ok(Err(e))) => l.violation(
                "instance/remainder-not-evaluable",
                || json!(case),
                format!("after fixing {both:?}, evaluating the remaining variables {rest:?} failed: {e}"),
            ),
            (Err(_), Ok(Ok(_))) => {} // invalid combined states are C05's subject
            (Err(_), Ok(Err(_))) => {}
        }
    }
    ommx::verif::set_dependency_order(None);
}

fn subsets(ids: &[u64]) -> Vec<Vec<u64>> {
    (0..(1usize << ids.len()))
        .map(|m| ids.iter().enumerate().filter(|(i, _)| m >> i & 1 == 1).map(|(_, x)| *x).collect())
        .collect()
}

/// every assignment of each id to {first, second, not fixed}
fn two_step_splits(ids: &[u64]) -> Vec<(Vec<u64>, Vec<u64>)> {
    let mut out = vec![];
    odometer(&vec![3; ids.len()], |d| {
        let a: Vec<u64> = ids.iter().zip(d).filter(|(_, k)| **k == 1).map(|(i, _)| *i).collect();
        let b: Vec<u64> = ids.iter().zip(d).filter(|(_, k)| **k == 2).map(|(i, _)| *i).collect();
        if !b.is_empty() {
            out.push((a, b));
        }
    });
    out
}

pub fn inst_family(tier: Tier) -> Vec<InstRep> {
    let t = tier == Tier::Thorough;
    let small = family_small();
    let objs: Vec<Option<FnRep>> = std::iter::once(None)
        .chain(small.iter().filter(|f| f.n_terms() > 0 || matches!(f, FnRep::Const(_))).step_by(if t { 1 } else { 2 }).map(|f| Some(f.clone())))
        .collect();
    let cf: Vec<Option<FnRep>> = vec![
        None,
        Some(FnRep::Const(-1.5)),
        Some(FnRep::Lin { terms: vec![(2, -0.5), (1, 2.0)], c: 1.0 }),
        Some(FnRep::Quad { entries: vec![(2, 1, -0.5), (1, 2, 2.0)], lin: Some((vec![(7, 1.0)], 0.5)) }),
        Some(FnRep::Poly { terms: vec![(vec![7, 1, 7], -0.5), (vec![1], 1.0), (vec![], -1.0)] }),
        Some(FnRep::Quad { entries: vec![(7, 7, 2.0)], lin: None }),
    ];
    let mut con_lists: Vec<Vec<ConRep>> = vec![vec![]];
    for (k, f) in cf.iter().enumerate() {
        for eq in [EQ_ZERO, LE_ZERO] {
            con_lists.push(vec![ConRep::new(3, eq, f.clone()).with_meta(&format!("{k}"))]);
        }
    }
    for a in 2..5 {
        for b in 2..5 {
            con_lists.push(vec![ConRep::new(40, LE_ZERO, cf[a].clone()), ConRep::new(3, EQ_ZERO, cf[b].clone()).with_meta("m")]);
        }
    }
    let mut rem_lists: Vec<Vec<RemRep>> = vec![vec![]];
    for (k, f) in cf.iter().enumerate() {
        rem_lists.push(vec![RemRep {
            constraint: ConRep::new(5, if k % 2 == 0 { EQ_ZERO } else { LE_ZERO }, f.clone()).with_meta("r"),
            reason: "relaxed".into(),
            parameters: vec![("why".into(), "test".into())],
        }]);
    }
    let deps: Vec<Vec<(u64, FnRep)>> = vec![
        vec![],
        vec![(9, FnRep::Lin { terms: vec![(1, 1.0), (2, 2.0)], c: 0.5 })],
        vec![(9, FnRep::Quad { entries: vec![(2, 1, 1.0)], lin: None }), (10, FnRep::Lin { terms: vec![(9, 2.0), (7, 1.0)], c: 0.0 })],
    ];
    let mut out = vec![];
    for o in &objs {
        for c in &con_lists {
            for r in &rem_lists {
                for d in &deps {
                    let mut vars = vec![
                        VarRep::new(1, KIND_CONTINUOUS, None),
                        VarRep::new(7, KIND_BINARY, None),
                        VarRep::new(2, KIND_INTEGER, Some((-2.0, 3.0))),
                        VarRep::new(8, KIND_CONTINUOUS, Some((1.0, f64::INFINITY))),
                    ];
                    for (id, _) in d {
                        vars.push(VarRep::new(*id, KIND_CONTINUOUS, None));
                    }
                    out.push(InstRep {
                        sense: SENSE_MAX,
                        objective: o.clone(),
                        vars,
                        constraints: c.clone(),
                        removed: r.clone(),
                        dependencies: d.clone(),
                        ..Default::default()
                    });
                }
            }
        }
    }
    out
}

pub fn run(ctx: &Ctx) -> Finish {
    let deep = ctx.tier == Tier::Thorough;
    let t = true;
    // ---- functions
    let fs: Vec<FnRep> = if deep { super::c01::functions(Tier::Thorough) } else { super::c01::functions(Tier::Quick) };
    ctx.note("functions", json!(fs.len()));
    let values = [-1.0, 0.5, 2.0];
    let mut states: Vec<Vec<(u64, f64)>> = vec![];
    odometer(&[3, 3, 3], |d| states.push(IDS3.iter().zip(d).map(|(i, k)| (*i, values[*k])).collect()));
    // a state with a zero and one with an extra id
    states.push(vec![(1, 0.0), (2, 2.0), (7, 0.0)]);
    let subs = subsets(&IDS3);
    let splits2 = two_step_splits(&IDS3);
    let n_states_1 = if t { states.len() } else { 9 };
    ctx.par(fs.len(), |l, i| {
        let f = &fs[i];
        l.states += 1;
        let stride = if t { 1 } else { 3 };
        for (k, st) in states.iter().enumerate() {
            if k % stride != 0 && k != states.len() - 1 {
                continue;
            }
            for first in &subs {
                let case = Case::Fun { f: f.clone(), state: st.clone(), first: first.clone(), second: vec![] };
                if k == 0 && first.len() == 2 && ctx.want_sample(i as u64) {
                    l.samples.push((i as u64, json!(case)));
                }
                check_case(l, &case);
            }
        }
        for st in [&states[5], &states[21], &states[states.len() - 1]] {
            for (a, b) in &splits2 {
                check_case(l, &Case::Fun { f: f.clone(), state: st.clone(), first: a.clone(), second: b.clone() });
            }
        }
    });
    let _ = n_states_1;
    // ---- long functions (31..100 terms): fixed part = every other id / the first half / only the last id /
    // all ids / none, and the two-step split (every other id, then the rest)
    let long = super::c01::long_functions();
    ctx.par(long.len(), |l, i| {
        let (f, ids) = &long[i];
        l.states += 1;
        let st: Vec<(u64, f64)> = ids.iter().map(|id| (*id, [-1.0, 0.5, 2.0, 0.0, 1.0][((id / 3) % 5) as usize])).collect();
        let alt: Vec<u64> = ids.iter().step_by(2).cloned().collect();
        let rest: Vec<u64> = ids.iter().skip(1).step_by(2).cloned().collect();
        let firsts: Vec<Vec<u64>> = vec![alt.clone(), ids[..ids.len() / 2].to_vec(), vec![*ids.last().unwrap()], ids.clone(), vec![]];
        for first in firsts {
            check_case(l, &Case::Fun { f: f.clone(), state: st.clone(), first, second: vec![] });
        }
        check_case(l, &Case::Fun { f: f.clone(), state: st.clone(), first: alt, second: rest });
    });
    // ---- id extremes: the small messages under the renaming 1 -> 0, 2 -> u64::MAX, 7 -> 2^32 + 3
    let e = (1u64 << 32) + 3;
    let ext_ids = [0u64, u64::MAX, e];
    let ext: Vec<FnRep> = super::c01::functions(Tier::Quick)
        .into_iter()
        .filter(|f| f.n_terms() <= 2)
        .map(|f| super::c01::rename(&f, &|i| match i { 1 => 0, 2 => u64::MAX, _ => e }))
        .collect();
    let ext_subs = subsets(&ext_ids);
    ctx.par(ext.len(), |l, i| {
        l.states += 1;
        for st in [vec![(0u64, 0.5), (u64::MAX, -1.0), (e, 2.0)], vec![(0u64, 2.0), (u64::MAX, 2.0), (e, 0.0)]] {
            for first in &ext_subs {
                check_case(l, &Case::Fun { f: ext[i].clone(), state: st.clone(), first: first.clone(), second: vec![] });
            }
        }
    });
    // ---- constraint wrappers
    let small = family_small();
    let cfs: Vec<Option<FnRep>> = std::iter::once(None).chain(small.into_iter().map(Some)).collect();
    ctx.par(cfs.len(), |l, i| {
        for removed in [false, true] {
            for st in [&states[5], &states[21]] {
                for fixed in &subs {
                    check_case(l, &Case::Con { removed, function: cfs[i].clone(), state: st.clone(), fixed: fixed.clone() });
                }
            }
        }
    });
    // ---- instances
    let insts = inst_family(Tier::Thorough);
    ctx.note("instances", json!(insts.len()));
    let ids4 = [1u64, 2, 7, 8];
    let inst_states: Vec<Vec<(u64, f64)>> = vec![
        vec![(1, 0.5), (2, -1.0), (7, 1.0), (8, 2.0)],
        vec![(1, 2.0), (2, 2.0), (7, 0.0), (8, 1.0)],
        vec![(1, -1.0), (2, 2.0), (7, 1.0), (8, 4.0)],
    ];
    let subs4 = subsets(&ids4);
    let splits4 = two_step_splits(&[1, 2, 7]);
    ctx.par(insts.len(), |l, i| {
        let inst = &insts[i];
        l.states += 1;
        for (k, st) in inst_states.iter().enumerate() {
            if !t && k == 2 {
                continue;
            }
            for first in &subs4 {
                let case = Case::Inst { inst: inst.clone(), state: st.clone(), first: first.clone(), second: vec![] };
                if first.len() == 2 && ctx.want_sample((1 << 40) + i as u64) {
                    l.samples.push(((1 << 40) + i as u64, json!(case)));
                }
                check_case(l, &case);
            }
        }
        for (a, b) in &splits4 {
            check_case(l, &Case::Inst { inst: inst.clone(), state: inst_states[0].clone(), first: a.clone(), second: b.clone() });
        }
    });
    Finish {
        level: "model_checking",
        rule: "functions: every message of the C01 representation alphabet x states over the value grid x every split fixed/remaining (2^3) x every ordered two-step split (3^3 assignments); long functions (31..100 terms) under five fixed parts and a two-step split; small messages with ids 0, 2^32+3, u64::MAX; constraints and removed constraints likewise; instances: product family (objective x active lists x removed x dependency none/single/chain) x in-bound states x all 2^4 splits x ordered two-step splits, both orders and at-once compared; non-trivial = non-zero function / non-empty fixed part".into(),
        bounds: json!({"ids": [1,2,7], "values": values, "function_terms_max": 3, "instance_vars": [1,2,7,8], "two_step_splits": splits2.len()}),
        exhaustive: true,
    }
}

pub fn replay(l: &mut Local, case: &serde_json::Value) -> Result<(), String> {
    let c: Case = serde_json::from_value(case.clone()).map_err(|e| e.to_string())?;
    check_case(l, &c);
    Ok(())
}

//! C14 — relaxing and restoring constraints only moves them (explicit-state search with stateright).

use crate::engine::*;
use crate::refmodel::inst::feasible_by_rule;
use crate::refmodel::msg::*;
use ommx::{v1, Evaluate, Message};
use serde::{Deserialize, Serialize};
use serde_json::json;
use stateright::{Checker, Model, Property};
use std::collections::{BTreeMap, BTreeSet};
use std::hash::{Hash, Hasher};
use std::sync::{Arc, Mutex};

#[derive(Clone, Debug, Serialize, Deserialize, PartialEq, Eq, Hash)]
pub enum Action {
    Relax { id: u64, reason: String, with_params: bool },
    Restore { id: u64 },
}

#[derive(Clone, Debug, Serialize, Deserialize)]
pub struct Case {
    /// which constraint-function set (0..)
    pub set: usize,
    /// constraint ids removed in the initial instance
    pub init_removed: Vec<u64>,
    pub history: Vec<Action>,
}

fn con_sets() -> Vec<Vec<ConRep>> {
    let lin = |t: Vec<(u64, f64)>, c: f64| Some(FnRep::Lin { terms: t, c });
    vec![
        vec![
            ConRep::new(3, LE_ZERO, lin(vec![(1, 1.0), (2, 1.0)], -1.0)).with_meta("three"),
            ConRep::new(5, EQ_ZERO, Some(FnRep::Quad { entries: vec![(2, 1, 1.0)], lin: Some((vec![], -1.0)) })),
            ConRep::new(40, LE_ZERO, lin(vec![(7, 1.0), (1, -1.0)], 0.0)).with_meta("forty"),
        ],
        vec![
            ConRep::new(3, EQ_ZERO, None).with_meta("three"),
            // value 5e-7 at every state: within the 1e-6 feasibility tolerance whether active or removed
            ConRep::new(5, LE_ZERO, Some(FnRep::Const(5e-7))).with_meta("five"),
            ConRep::new(40, LE_ZERO, Some(FnRep::Poly { terms: vec![(vec![7, 1, 7], 1.0), (vec![], -2.0)] })),
        ],
        vec![
            ConRep::new(3, LE_ZERO, lin(vec![(1, 1.0)], -1.0)),
            ConRep::new(5, LE_ZERO, lin(vec![(1, 1.0)], -1.0)), // same function and equality, different id
            ConRep::new(40, EQ_ZERO, lin(vec![(2, 2.0)], -1.0)).with_meta("forty"),
            ConRep::new(8, EQ_ZERO, Some(FnRep::Const(-5e-7))).with_meta("eight"),
        ],
        // thorough tier only: five constraints
        vec![
            ConRep::new(3, LE_ZERO, lin(vec![(1, 1.0), (2, 1.0)], -1.0)).with_meta("three"),
            ConRep::new(5, EQ_ZERO, Some(FnRep::Quad { entries: vec![(2, 1, 1.0)], lin: Some((vec![], -1.0)) })),
            ConRep::new(40, LE_ZERO, lin(vec![(7, 1.0), (1, -1.0)], 0.0)).with_meta("forty"),
            ConRep::new(8, LE_ZERO, lin(vec![(7, -1.0)], 0.0)),
            ConRep::new(0, EQ_ZERO, lin(vec![(2, 2.0)], -1.0)).with_meta("zero"),
        ],
    ]
}

/// `set >= 100`: constraint set `set - 100` in an instance whose variable 7 carries a fixed
/// (substituted) value although constraints still mention it
fn initial(set: usize, init_removed: &[u64]) -> InstRep {
    let cons = &con_sets()[set % 100];
    let mut v7 = VarRep::new(7, KIND_CONTINUOUS, None);
    if set >= 100 {
        v7.substituted = Some(2.0);
    }
    InstRep {
        sense: SENSE_MIN,
        objective: Some(FnRep::Lin { terms: vec![(1, 1.0)], c: 0.0 }),
        // the lists are sets: variables and constraints are listed out of id order (set order rotated by one)
        vars: vec![VarRep::new(2, KIND_CONTINUOUS, None), v7, VarRep::new(1, KIND_CONTINUOUS, None)],
        constraints: cons.iter().cycle().skip(1).take(cons.len()).filter(|c| !init_removed.contains(&c.id)).cloned().collect(),
        removed: cons
            .iter()
            .rev()
            .filter(|c| init_removed.contains(&c.id))
            .map(|c| RemRep { constraint: c.clone(), reason: format!("init-{}", c.id), parameters: vec![("i".into(), "0".into())] })
            .collect(),
        ..Default::default()
    }
}

/// Reference model: which list each id is in, and the reason recorded for removed ones.
#[derive(Clone, Debug, PartialEq, Eq, Hash)]
pub struct RefModel {
    active: BTreeSet<u64>,
    removed: BTreeMap<u64, (String, BTreeMap<String, String>)>,
}

impl RefModel {
    fn of(inst: &InstRep) -> Self {
        RefModel {
            active: inst.constraints.iter().map(|c| c.id).collect(),
            removed: inst.removed.iter().map(|r| (r.constraint.id, (r.reason.clone(), r.parameters.iter().cloned().collect()))).collect(),
        }
    }
    /// returns whether the operation must succeed
    fn step(&mut self, a: &Action) -> bool {
        match a {
            Action::Relax { id, reason, with_params } => {
                if self.active.remove(id) {
                    let p: BTreeMap<String, String> = if *with_params { [("k".to_string(), "v".to_string())].into_iter().collect() } else { BTreeMap::new() };
                    self.removed.insert(*id, (reason.clone(), p));
                    true
                } else {
                    false
                }
            }
            Action::Restore { id } => {
                if self.removed.remove(id).is_some() {
                    self.active.insert(*id);
                    true
                } else {
                    false
                }
            }
        }
    }
}

fn grid_states() -> Vec<Vec<(u64, f64)>> {
    let vals = [-1.0, 0.5, 2.0];
    let mut out = vec![];
    odometer(&[3, 3, 3], |d| out.push(vec![(1, vals[d[0]]), (2, vals[d[1]]), (7, vals[d[2]])]));
    out
}

type ConKey = (u64, i32, String, Option<String>, Vec<i64>, BTreeMap<String, String>, Option<String>);

fn con_key(c: &v1::Constraint) -> Result<ConKey, String> {
    let v = con_view(c)?;
    Ok((v.id, v.equality, v.poly.show(), v.name, v.subscripts, v.parameters, v.description))
}

/// invariants of one instance state against the initial instance and the reference model
fn check_state(inst: &v1::Instance, init: &v1::Instance, rm: &RefModel, init_evals: &[(Vec<(u64, f64)>, Option<v1::Solution>)]) -> Vec<(String, String)> {
    let mut out = vec![];
    let mut all = vec![];
    let collect = |i: &v1::Instance, all: &mut Vec<ConKey>| -> Result<(), String> {
        for c in &i.constraints {
            all.push(con_key(c)?);
        }
        for r in &i.removed_constraints {
            all.push(con_key(r.constraint.as_ref().ok_or("removed constraint without constraint")?)?);
        }
        all.sort();
        Ok(())
    };
    let mut base = vec![];
    if let Err(e) = collect(inst, &mut all).and_then(|_| collect(init, &mut base)) {
        return vec![("unreadable".into(), e)];
    }
    if all != base {
        out.push((
            "constraint-collection-changed".into(),
            format!(
                "active+removed constraints are now {:?}; initially {:?}",
                all.iter().map(|k| (k.0, &k.2)).collect::<Vec<_>>(),
                base.iter().map(|k| (k.0, &k.2)).collect::<Vec<_>>()
            ),
        ));
    }
    let active: Vec<u64> = inst.constraints.iter().map(|c| c.id).collect();
    let removed: Vec<u64> = inst.removed_constraints.iter().filter_map(|r| r.constraint.as_ref().map(|c| c.id)).collect();
    let aset: BTreeSet<u64> = active.iter().cloned().collect();
    let rset: BTreeSet<u64> = removed.iter().cloned().collect();
    if aset.len() != active.len() || rset.len() != removed.len() || !aset.is_disjoint(&rset) {
        out.push(("id-in-both-lists-or-twice".into(), format!("active ids {active:?}, removed ids {removed:?}")));
    }
    if aset != rm.active || rset != rm.removed.keys().cloned().collect() {
        out.push((
            "lists-differ-from-reference".into(),
            format!("active {active:?} removed {removed:?}; reference model: active {:?} removed {:?}", rm.active, rm.removed.keys().collect::<Vec<_>>()),
        ));
    }
    for r in &inst.removed_constraints {
        if let Some(c) = &r.constraint {
            if let Some((reason, params)) = rm.removed.get(&c.id) {
                let got: BTreeMap<String, String> = r.removed_reason_parameters.iter().map(|(k, v)| (k.clone(), v.clone())).collect();
                if &r.removed_reason != reason || &got != params {
                    out.push((
                        "recorded-reason".into(),
                        format!("constraint {} removed with reason {:?} {:?}; the operation gave {:?} {:?}", c.id, r.removed_reason, got, reason, params),
                    ));
                }
            }
        }
    }
    // values and feasibility on every grid state
    for (st, base_sol) in init_evals {
        let r = sdk(|| inst.evaluate(&mk_state(st)).map_err(|e| format!("{e:#}")));
        // a state the initial instance rejects (it omits a variable some constraint uses) is rejected
        // wherever that constraint currently sits
        let Some(base_sol) = base_sol else {
            match r {
                Ok(Ok(_)) => {
                    out.push(("evaluability-changed".into(), format!("evaluate at the incomplete state {st:?} succeeds now; the initial instance rejects it")));
                    break;
                }
                Ok(Err(_)) => continue,
                Err(p) => {
                    out.push(("evaluate-panic".into(), format!("evaluate at {st:?} panicked: {p}")));
                    break;
                }
            }
        };
        let sol = match r {
            Ok(Ok((s, _))) => s,
            Ok(Err(e)) | Err(e) => {
                out.push(("evaluate-error".into(), format!("evaluate at {st:?} failed: {e}")));
                break;
            }
        };
        let vals = |s: &v1::Solution| -> BTreeMap<u64, (u64, i32)> { s.evaluated_constraints.iter().map(|c| (c.id, (c.evaluated_value.to_bits(), c.equality))).collect() };
        if vals(&sol) != vals(base_sol) || sol.evaluated_constraints.len() != base_sol.evaluated_constraints.len() {
            out.push(("constraint-values-changed".into(), format!("at {st:?}: per-constraint values {:?}; initially {:?}", vals(&sol), vals(base_sol))));
            break;
        }
        if sol.feasible != base_sol.feasible {
            out.push(("feasible-changed".into(), format!("at {st:?}: feasible = {}, initially {}", sol.feasible, base_sol.feasible)));
            break;
        }
        let relaxed = sol
            .evaluated_constraints
            .iter()
            .filter(|c| rm.active.contains(&c.id))
            .all(|c| feasible_by_rule(c.equality, c.evaluated_value).unwrap_or(false));
        if sol.feasible_relaxed != Some(relaxed) {
            out.push((
                "feasible_relaxed".into(),
                format!("at {st:?}: feasible_relaxed = {:?}, but the currently active constraints {:?} give {relaxed}", sol.feasible_relaxed, rm.active),
            ));
            break;
        }
        // removed reasons are reported on the evaluated constraints
        for c in &sol.evaluated_constraints {
            let want = rm.removed.get(&c.id).map(|r| r.0.clone());
            if c.removed_reason != want {
                out.push(("evaluated-removed-reason".into(), format!("constraint {} reports removed_reason {:?}, expected {:?}", c.id, c.removed_reason, want)));
                return out;
            }
        }
    }
    // the same through the sampled entry point: all complete states as one sample set
    let complete: Vec<(u64, &Vec<(u64, f64)>, &v1::Solution)> = init_evals.iter().enumerate().filter_map(|(k, (st, b))| b.as_ref().map(|b| (k as u64 * 3 + 1, st, b))).collect();
    let mut samples = v1::Samples::default();
    for (id, st, _) in &complete {
        samples.add_sample(*id, mk_state(st));
    }
    match sdk(|| inst.evaluate_samples(&samples).map_err(|e| format!("{e:#}"))) {
        Err(e) | Ok(Err(e)) => out.push(("evaluate_samples-error".into(), format!("evaluate_samples over the grid states failed: {e}"))),
        Ok(Ok((ss, _))) => {
            // the id getter of the remaining-constraints sense follows the same flags
            let want_ids: BTreeSet<u64> = complete
                .iter()
                .filter(|(_, _, b)| b.evaluated_constraints.iter().filter(|c| rm.active.contains(&c.id)).all(|c| feasible_by_rule(c.equality, c.evaluated_value).unwrap_or(false)))
                .map(|(id, _, _)| *id)
                .collect();
            if ss.feasible_ids() != want_ids {
                out.push(("sampled-feasible-ids".into(), format!("feasible_ids() = {:?}; the currently active constraints {:?} give {want_ids:?}", ss.feasible_ids(), rm.active)));
            }
            for (id, st, base) in &complete {
                let relaxed = base.evaluated_constraints.iter().filter(|c| rm.active.contains(&c.id)).all(|c| feasible_by_rule(c.equality, c.evaluated_value).unwrap_or(false));
                let got = (ss.feasible.get(id).cloned(), ss.feasible_relaxed.get(id).cloned());
                if got != (Some(base.feasible), Some(relaxed)) {
                    out.push((
                        "sampled-feasibility".into(),
                        format!("evaluate_samples at {st:?}: (feasible, feasible_relaxed) = {got:?}; the initial instance gives feasible = {}, the currently active constraints {:?} give feasible_relaxed = {relaxed}", base.feasible, rm.active),
                    ));
                    break;
                }
            }
        }
    }
    // an incomplete state that the initial instance rejects is rejected as a sample too (a constraint
    // does not stop needing its variables by being relaxed)
    for (st, base) in init_evals.iter().filter(|(_, b)| b.is_none()) {
        let _ = base;
        let mut one = v1::Samples::default();
        one.add_sample(7, mk_state(st));
        if let Ok(Ok(_)) = sdk(|| inst.evaluate_samples(&one).map_err(|e| format!("{e:#}"))) {
            out.push(("sampled-evaluability-changed".into(), format!("evaluate_samples accepts the incomplete state {st:?}; the initial instance rejects it")));
            break;
        }
    }
    out
}

fn apply(inst: &mut v1::Instance, a: &Action) -> Result<Result<(), String>, String> {
    sdk(|| {
        match a {
            Action::Relax { id, reason, with_params } => inst.relax_constraint(
                *id,
                reason.clone(),
                if *with_params { [("k".to_string(), "v".to_string())].into_iter().collect() } else { Default::default() },
            ),
            Action::Restore { id } => inst.restore_constraint(*id),
        }
        .map_err(|e| format!("{e:#}"))
    })
}

/// One transition: real operation + reference step + transition checks. Returns violations.
fn transition(inst: &mut v1::Instance, rm: &mut RefModel, a: &Action) -> Vec<(String, String)> {
    let before = inst.clone();
    let must_succeed = rm.step(a);
    let mut out = vec![];
    match apply(inst, a) {
        Err(p) => out.push(("panic".into(), format!("{a:?} panicked: {p}"))),
        Ok(Ok(())) => {
            if !must_succeed {
                out.push(("operation-on-wrong-list-accepted".into(), format!("{a:?} names an id that is not in the expected list, but it succeeded")));
            }
        }
        Ok(Err(e)) => {
            if must_succeed {
                out.push(("valid-operation-rejected".into(), format!("{a:?} failed: {e}")));
            } else if *inst != before {
                out.push(("failed-operation-changed-instance".into(), format!("{a:?} failed ({e}) but the instance changed")));
            }
        }
    }
    out
}

fn init_evals(init: &v1::Instance) -> Vec<(Vec<(u64, f64)>, Option<v1::Solution>)> {
    let mut out: Vec<(Vec<(u64, f64)>, Option<v1::Solution>)> = grid_states()
        .into_iter()
        .map(|st| {
            let sol = init.evaluate(&mk_state(&st)).expect("ENGINE: initial instance must evaluate").0;
            (st, Some(sol))
        })
        .collect();
    // incomplete states: each variable omitted in turn (accepted iff no constraint and not the objective uses it)
    for omit in [1u64, 2, 7] {
        let st: Vec<(u64, f64)> = [(1, 0.5), (2, 2.0), (7, -1.0)].into_iter().filter(|(k, _)| *k != omit).collect();
        let sol = init.evaluate(&mk_state(&st)).ok().map(|r| r.0);
        out.push((st, sol));
    }
    out
}

/// Replays one history from the initial instance, checking every transition and every state.
pub fn check_case(l: &mut Local, case: &Case) {
    l.evaluations += 1;
    let rep = initial(case.set, &case.init_removed);
    let init = rep.to_msg();
    let evals = init_evals(&init);
    let mut inst = init.clone();
    let mut rm = RefModel::of(&rep);
    for (sig, d) in check_state(&inst, &init, &rm, &evals) {
        l.violation(&format!("state/{sig}"), || json!(case), format!("initial state: {d}"));
    }
    for (k, a) in case.history.iter().enumerate() {
        l.transitions += 1;
        for (sig, d) in transition(&mut inst, &mut rm, a) {
            l.violation(&format!("transition/{sig}"), || json!(case), format!("step {k}: {d}"));
        }
        for (sig, d) in check_state(&inst, &init, &rm, &evals) {
            l.violation(&format!("state/{sig}"), || json!(case), format!("after step {k} ({a:?}): {d}"));
        }
    }
}

// ------------------------------------------------------------------------------------------
// stateright model
// ------------------------------------------------------------------------------------------

#[derive(Clone, Debug)]
pub struct St {
    inst: v1::Instance,
    rm: RefModel,
    history: Vec<Action>,
    key: Vec<u8>,
    /// the transition into this state disagreed with the reference model (already reported): the
    /// pair (instance, reference) is meaningless from here on and is not extended
    diverged: bool,
}

impl St {
    fn new(inst: v1::Instance, rm: RefModel, history: Vec<Action>) -> Self {
        // canonical form: the full message bytes (all maps in these instances have at most one entry,
        // so the encoding is deterministic) plus the reference model
        let key = inst.encode_to_vec();
        St { inst, rm, history, key, diverged: false }
    }
}
impl PartialEq for St {
    fn eq(&self, o: &Self) -> bool {
        self.key == o.key && self.rm == o.rm && self.diverged == o.diverged
    }
}
impl Eq for St {}
impl Hash for St {
    fn hash<H: Hasher>(&self, h: &mut H) {
        self.key.hash(h);
        self.rm.hash(h);
        self.diverged.hash(h);
    }
}

struct M {
    set: usize,
    init_removed: Vec<u64>,
    init: v1::Instance,
    evals: Vec<(Vec<(u64, f64)>, Option<v1::Solution>)>,
    ids: Vec<u64>,
    side: Arc<Mutex<Local>>,
}

impl M {
    fn report(&self, history: &[Action], sig: String, d: String) {
        let case = Case { set: self.set, init_removed: self.init_removed.clone(), history: history.to_vec() };
        self.side.lock().unwrap().violation(&sig, || json!(case), d);
    }
}

impl Model for M {
    type State = St;
    type Action = Action;

    fn init_states(&self) -> Vec<St> {
        let rep = initial(self.set, &self.init_removed);
        vec![St::new(self.init.clone(), RefModel::of(&rep), vec![])]
    }

    fn actions(&self, s: &St, out: &mut Vec<Action>) {
        if s.diverged {
            self.side.lock().unwrap().bump("paths_not_extended_after_reported_divergence", 1);
            return;
        }
        for id in self.ids.iter().chain(std::iter::once(&99)) {
            // the empty string is a legal reason and still marks the constraint as removed
            for reason in ["a", ""] {
                for with_params in [false, true] {
                    out.push(Action::Relax { id: *id, reason: reason.to_string(), with_params });
                }
            }
            // a reason is recorded as given, including surrounding whitespace
            out.push(Action::Relax { id: *id, reason: " b \t".to_string(), with_params: false });
            out.push(Action::Restore { id: *id });
        }
    }

    fn next_state(&self, s: &St, a: Action) -> Option<St> {
        let mut inst = s.inst.clone();
        let mut rm = s.rm.clone();
        let mut history = s.history.clone();
        history.push(a.clone());
        {
            let mut side = self.side.lock().unwrap();
            side.transitions += 1;
        }
        let mut diverged = false;
        for (sig, d) in transition(&mut inst, &mut rm, &a) {
            diverged = true;
            self.report(&history, format!("transition/{sig}"), format!("step {}: {d}", history.len() - 1));
        }
        let mut st = St::new(inst, rm, history);
        st.diverged = diverged;
        Some(st)
    }

    fn properties(&self) -> Vec<Property<Self>> {
        vec![Property::always("constraints are only moved; values and feasibility invariant", |m: &M, s: &St| {
            let v = check_state(&s.inst, &m.init, &s.rm, &m.evals);
            {
                let mut side = m.side.lock().unwrap();
                side.states += 1;
                side.evaluations += 1;
                if !s.history.is_empty() {
                    side.nontrivial += 1;
                }
                side.outcome(&(s.rm.active.clone(), s.rm.removed.clone()));
            }
            for (sig, d) in v {
                m.report(&s.history, format!("state/{sig}"), format!("after {:?}: {d}", s.history.last()));
            }
            // violations are reported through the side channel so that exploration continues
            // and every signature is found; the property itself stays true
            true
        })]
    }
}

pub fn run(ctx: &Ctx) -> Finish {
    let sets = con_sets();
    let mut models = vec![];
    for (si, set) in sets.iter().enumerate() {
        let ids: Vec<u64> = set.iter().map(|c| c.id).collect();
        if set.len() == 5 {
            if ctx.tier == Tier::Thorough {
                models.push((si, ids.clone(), vec![]));
            }
            continue;
        }
        // initial instances: none removed, first removed, first two removed, all removed
        for k in [0usize, 1, 2, ids.len()] {
            models.push((si, ids.clone(), ids[..k].to_vec()));
        }
    }
    // the first set again with variable 7 fixed in the instance while constraint 40 mentions it
    {
        let ids: Vec<u64> = sets[0].iter().map(|c| c.id).collect();
        models.push((100, ids.clone(), vec![]));
        models.push((100, ids.clone(), vec![40]));
    }
    let mut depth_max = 0usize;
    let mut unique_total = 0usize;
    for (si, ids, init_removed) in models {
        let init = initial(si, &init_removed).to_msg();
        let side = Arc::new(Mutex::new(Local::new()));
        let m = M { set: si, init_removed: init_removed.clone(), evals: init_evals(&init), init, ids, side: side.clone() };
        let checker = m.checker().threads(16).spawn_bfs().join();
        unique_total += checker.unique_state_count();
        depth_max = depth_max.max(checker.max_depth());
        let mut l = std::mem::take(&mut *side.lock().unwrap());
        if ctx.want_sample(si as u64 * 10 + init_removed.len() as u64) || l.samples.is_empty() {
            l.samples.push((
                si as u64 * 10 + init_removed.len() as u64,
                json!({"model": {"constraint_set": si, "initially_removed": init_removed}, "unique_states": checker.unique_state_count(), "max_depth": checker.max_depth()}),
            ));
        }
        ctx.absorb(l);
    }
    ctx.note("unique_states_stateright", json!(unique_total));
    ctx.note("bfs_max_depth", json!(depth_max));
    // explicit histories of length <= 8 are contained in the reachable-state search (the instance is the
    // whole state); as a cross-check replay a deterministic family of length-8 histories through the path checker
    ctx.seq(|l| {
        let acts = [
            Action::Relax { id: 3, reason: "a".into(), with_params: true },
            Action::Restore { id: 3 },
            Action::Relax { id: 40, reason: "b".into(), with_params: false },
            Action::Restore { id: 99 },
            Action::Relax { id: 3, reason: "b".into(), with_params: false },
            Action::Restore { id: 40 },
            Action::Relax { id: 5, reason: "a".into(), with_params: false },
            Action::Restore { id: 5 },
        ];
        for rot in 0..8 {
            let history: Vec<Action> = (0..8).map(|i| acts[(i * 3 + rot) % 8].clone()).collect();
            let case = Case { set: 0, init_removed: vec![5], history };
            l.samples.push((1000 + rot as u64, json!(case)));
            check_case(l, &case);
        }
    });
    Finish {
        level: "model_checking",
        rule: "explicit-state breadth-first search (stateright) from each initial instance (incl. two in which a variable that a constraint mentions carries a fixed value) over the actions relax(id, reason in {a, empty string}, params in {none,{k:v}}), relax(id, a reason with leading and trailing whitespace) and restore(id) for every constraint id and the unknown id 99; the instance message IS the state (dedup key = its bytes + reference model), so all histories of any length are covered; every transition is compared with a two-set reference model and every reachable state is checked: active+removed multiset of (id, function, equality, metadata) unchanged, ids partitioned, recorded reasons, and on all 27 grid states per-constraint values and feasible equal the initial instance's while feasible_relaxed follows the currently active constraints; three incomplete states (each variable omitted) are accepted or rejected exactly as by the initial instance; evaluate_samples over all grid states reports the same two flags per sample".into(),
        bounds: json!({"constraint_sets": sets.len(), "constraints_per_instance": if ctx.tier == Tier::Thorough { "3, 4 or 5" } else { "3 or 4" }, "initial_instances": "0,1,2,all initially removed", "actions_per_state": "6 per id incl. unknown id", "histories": "all lengths (full reachable state space)"}),
        exhaustive: true,
    }
}

pub fn replay(l: &mut Local, case: &serde_json::Value) -> Result<(), String> {
    let c: Case = serde_json::from_value(case.clone()).map_err(|e| e.to_string())?;
    check_case(l, &c);
    Ok(())
}

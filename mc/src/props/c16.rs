//! C16 — interval bounds enclose every attainable value.

use crate::engine::*;
use crate::refmodel::family::*;
use crate::refmodel::msg::*;
use crate::refmodel::poly::*;
use num::{Integer, Signed, Zero};
use ommx::{Bound, Bounds, VariableID};
use serde::{Deserialize, Serialize};
use serde_json::json;

type Iv = (X, X);

#[derive(Clone, Debug, Serialize, Deserialize)]
pub enum Case {
    Add { a: Iv, b: Iv },
    Mul { a: Iv, b: Iv },
    Pow { a: Iv, e: u8 },
    Scale { a: Iv, c: f64 },
    Shift { a: Iv, c: f64 },
    AsInteger { a: Iv },
    /// bounds[i] = None means "no entry for that variable"
    EvaluateBound { f: FnRep, bounds: Vec<(u64, Option<Iv>)> },
    /// coefficients p/q of a function (last one is the constant when `with_constant`)
    ContentFactor { coefs: Vec<(i64, i64)>, repr: String },
}

const POINTS: [f64; 13] = [-1000.0, -2.0, -1.0, -0.5, -0.25, 0.0, 0.25, 0.5, 1.0, 2.0, 3.0, 1000.0, -3.0];

fn iv(a: &Iv) -> Bound {
    Bound::new(a.0 .0, a.1 .0).expect("ENGINE: alphabet interval must be valid")
}

fn pts(a: &Iv) -> Vec<f64> {
    POINTS.iter().cloned().filter(|p| a.0 .0 <= *p && *p <= a.1 .0).collect()
}

fn valid(b: &Bound) -> Result<(), String> {
    let (l, u) = (b.lower(), b.upper());
    if l.is_nan() || u.is_nan() || l == f64::INFINITY || u == f64::NEG_INFINITY || l > u {
        Err(format!("invalid interval [{l}, {u}]"))
    } else {
        Ok(())
    }
}

/// exact containment of a finite value in an interval with possibly infinite ends
fn contains(b: &Bound, v: &Q) -> bool {
    let lo_ok = b.lower() == f64::NEG_INFINITY || q(b.lower()) <= *v;
    let hi_ok = b.upper() == f64::INFINITY || *v <= q(b.upper());
    lo_ok && hi_ok
}

fn intervals_deep() -> Vec<Iv> {
    let inf = f64::INFINITY;
    let e = [-inf, -2.0, -1.0, -0.5, 0.0, 0.5, 1.0, 3.0, inf];
    let mut out = vec![];
    for l in e {
        for u in e {
            if l <= u && l != inf && u != -inf {
                out.push((X(l), X(u)));
            }
        }
    }
    out
}

fn intervals() -> Vec<Iv> {
    let inf = f64::INFINITY;
    let e = [-inf, -2.0, -0.5, 0.0, 0.5, 3.0, inf];
    let mut out = vec![];
    for l in e {
        for u in e {
            if l <= u && l != inf && u != -inf {
                out.push((X(l), X(u)));
            }
        }
    }
    out
}

fn binop(l: &mut Local, case: &Case, name: &str, r: Result<Vec<(&'static str, Bound)>, String>, a: &Iv, b: Option<&Iv>, f: impl Fn(&Q, &Q) -> Q) {
    let results = match r {
        Err(p) => return l.violation(&format!("{name}/panic"), || json!(case), p),
        Ok(r) => r,
    };
    for (path, res) in results {
        if let Err(e) = valid(&res) {
            l.violation(&format!("{name}/invalid-interval"), || json!(case), format!("{path}: {e}"));
            continue;
        }
        l.outcome(&(res.lower().to_bits(), res.upper().to_bits()));
        let ys: Vec<f64> = b.map_or(vec![0.0], pts);
        for x in pts(a) {
            for y in &ys {
                let v = f(&q(x), &q(*y));
                if !contains(&res, &v) {
                    l.violation(
                        &format!("{name}/not-enclosing"),
                        || json!(case),
                        format!("{path}: result [{}, {}] does not contain the pointwise result {} (x = {x}, y = {y})", res.lower(), res.upper(), qs(&v)),
                    );
                    return;
                }
            }
        }
    }
}

fn exact_content_factor(coefs: &[(i64, i64)]) -> Q {
    let mut g = num::BigInt::zero();
    let mut l = num::BigInt::from(1);
    for (p, qd) in coefs {
        let r = qr(*p, *qd);
        if r.is_zero() {
            continue;
        }
        g = g.gcd(r.numer());
        l = l.lcm(r.denom());
    }
    if g.is_zero() {
        qi(1)
    } else {
        Q::new(l, g).abs()
    }
}

pub fn check_case(l: &mut Local, case: &Case) {
    l.evaluations += 1;
    l.transitions += 1;
    match case {
        Case::Add { a, b } => {
            l.nontrivial += 1;
            let r = sdk(|| {
                let (x, y) = (iv(a), iv(b));
                let mut z = x;
                z += y;
                vec![("a + b", x + y), ("a += b", z)]
            });
            binop(l, case, "add", r, a, Some(b), |x, y| x + y);
        }
        Case::Mul { a, b } => {
            l.nontrivial += 1;
            let r = sdk(|| {
                let (x, y) = (iv(a), iv(b));
                let mut z = x;
                z *= y;
                vec![("a * b", x * y), ("a *= b", z)]
            });
            binop(l, case, "mul", r, a, Some(b), |x, y| x * y);
        }
        Case::Pow { a, e } => {
            l.nontrivial += 1;
            let r = sdk(|| vec![("a.pow(e)", iv(a).pow(*e))]);
            let e = *e;
            binop(l, case, "pow", r, a, None, move |x, _| (0..e).fold(qi(1), |acc, _| acc * x));
        }
        Case::Scale { a, c } => {
            l.nontrivial += 1;
            let c = *c;
            let r = sdk(|| {
                let x = iv(a);
                let mut z = x;
                z *= c;
                vec![("a * c", x * c), ("c * a", c * x), ("a *= c", z)]
            });
            binop(l, case, "scale", r, a, None, move |x, _| x * q(c));
        }
        Case::Shift { a, c } => {
            let c = *c;
            let r = sdk(|| {
                let x = iv(a);
                let mut z = x;
                z += c;
                vec![("a + c", x + c), ("c + a", c + x), ("a += c", z)]
            });
            binop(l, case, "shift", r, a, None, move |x, _| x + q(c));
        }
        Case::AsInteger { a } => {
            l.nontrivial += 1;
            let r = match sdk(|| iv(a).as_integer_bound()) {
                Err(p) => return l.violation("as-integer/panic", || json!(case), p),
                Ok(r) => r,
            };
            if let Err(e) = valid(&r) {
                return l.violation("as-integer/invalid-interval", || json!(case), e);
            }
            l.outcome(&(r.lower().to_bits(), r.upper().to_bits()));
            for e in [r.lower(), r.upper()] {
                if e.is_finite() && e.fract() != 0.0 {
                    l.violation("as-integer/endpoint-not-integral", || json!(case), format!("result [{}, {}]", r.lower(), r.upper()));
                }
            }
            // candidate integers: the small ones, and the outermost / a middle integer of the interval
            // itself (every f64 of magnitude >= 2^53 is an integer)
            let mut cands: Vec<f64> = (-1001i64..=1001).map(|n| n as f64).collect();
            for e in [a.0 .0.ceil(), a.1 .0.floor(), (a.0 .0 / 2.0 + a.1 .0 / 2.0).round()] {
                if e.is_finite() {
                    cands.push(e);
                }
            }
            for nf in cands {
                if a.0 .0 <= nf && nf <= a.1 .0 && !(r.lower() <= nf && nf <= r.upper()) {
                    l.violation(
                        "as-integer/integer-lost",
                        || json!(case),
                        format!("[{}, {}] contains the integer {nf}, the rounded interval [{}, {}] does not", a.0 .0, a.1 .0, r.lower(), r.upper()),
                    );
                    break;
                }
            }
            if (a.0 .0 == f64::NEG_INFINITY) != (r.lower() == f64::NEG_INFINITY) || (a.1 .0 == f64::INFINITY) != (r.upper() == f64::INFINITY) {
                l.violation("as-integer/integer-lost", || json!(case), format!("infinite side changed: [{}, {}] -> [{}, {}]", a.0 .0, a.1 .0, r.lower(), r.upper()));
            }
        }
        Case::EvaluateBound { f, bounds } => {
            let msg = f.to_msg();
            let mut bs: Bounds = Bounds::new();
            for (id, b) in bounds {
                if let Some(b) = b {
                    bs.insert(VariableID::from(*id), iv(b));
                }
            }
            let poly = f.poly();
            if !poly.is_zero() {
                l.nontrivial += 1;
            }
            let r = match sdk(|| msg.evaluate_bound(&bs)) {
                Err(p) => return l.violation("evaluate-bound/panic", || json!(case), p),
                Ok(r) => r,
            };
            if let Err(e) = valid(&r) {
                return l.violation("evaluate-bound/invalid-interval", || json!(case), e);
            }
            l.outcome(&(r.lower().to_bits(), r.upper().to_bits()));
            let unb = (X(f64::NEG_INFINITY), X(f64::INFINITY));
            let axes: Vec<(u64, Vec<f64>)> = bounds.iter().map(|(id, b)| (*id, pts(b.as_ref().unwrap_or(&unb)))).collect();
            let radix: Vec<usize> = axes.iter().map(|a| a.1.len()).collect();
            // All alphabet values are dyadic with small numerators: f64 evaluation of the reference
            // polynomial's terms is exact, so the containment test below is exact.
            let terms: Vec<(Vec<usize>, f64)> = poly
                .0
                .iter()
                .map(|(k, c)| (k.iter().map(|id| axes.iter().position(|a| a.0 == *id).expect("ENGINE: id without axis")).collect(), q_to_f64(c)))
                .collect();
            let mut bad: Option<(Vec<f64>, f64)> = None;
            odometer(&radix, |d| {
                if bad.is_some() {
                    return;
                }
                let mut v = 0.0;
                for (k, c) in &terms {
                    let mut t = *c;
                    for i in k {
                        t *= axes[*i].1[d[*i]];
                    }
                    v += t;
                }
                if !(r.lower() <= v && v <= r.upper()) {
                    bad = Some((d.iter().enumerate().map(|(i, k)| axes[i].1[*k]).collect(), v));
                }
            });
            if let Some((x, v)) = bad {
                l.violation(
                    "evaluate-bound/not-enclosing",
                    || json!(case),
                    format!("interval [{}, {}] for {} over the box does not contain f({x:?}) = {v}", r.lower(), r.upper(), poly.show()),
                );
            }
        }
        Case::ContentFactor { coefs, repr } => {
            let n = coefs.len();
            let cf: Vec<f64> = coefs.iter().map(|(p, qd)| *p as f64 / *qd as f64).collect();
            let f = match repr.as_str() {
                "linear" => FnRep::Lin { terms: cf[..n.min(2)].iter().enumerate().map(|(i, c)| (i as u64 + 1, *c)).collect(), c: if n > 2 { cf[2] } else { 0.0 } },
                "constant" => FnRep::Const(cf[0]),
                "quadratic" => FnRep::Quad { entries: vec![(2, 1, cf[0])], lin: if n > 1 { Some((vec![(1, cf[1])], if n > 2 { cf[2] } else { 0.0 })) } else { None } },
                _ => FnRep::Poly { terms: cf.iter().enumerate().map(|(i, c)| (vec![1; i], *c)).collect() },
            };
            let want = exact_content_factor(coefs);
            l.outcome(&want);
            if n >= 2 {
                l.nontrivial += 1;
            }
            let msg = f.to_msg();
            match sdk(|| msg.content_factor().map_err(|e| format!("{e:#}"))) {
                Err(p) => l.violation("content-factor/panic", || json!(case), p),
                Ok(Err(e)) => l.violation("content-factor/error", || json!(case), format!("content_factor failed on small rationals: {e}")),
                Ok(Ok(a)) => {
                    // integrality within the rounding bound
                    for (c, (p, qd)) in cf.iter().zip(coefs) {
                        let prod = a * c;
                        if (prod - prod.round()).abs() > 1e-9 * prod.abs().max(1.0) {
                            l.violation("content-factor/not-integral", || json!(case), format!("a = {a}: a * ({p}/{qd}) = {prod} is not integral"));
                            return;
                        }
                    }
                    if a != q_to_f64(&want) {
                        l.violation(
                            "content-factor/not-minimal",
                            || json!(case),
                            format!("a = {a}, the minimal positive multiplier lcm(denominators)/gcd(numerators) is {}", qs(&want)),
                        );
                    }
                }
            }
        }
    }
}

fn reduced_fractions(qmax: i64, pmax: i64) -> Vec<(i64, i64)> {
    let mut out = vec![];
    for qd in 1..=qmax {
        for p in -pmax..=pmax {
            if p != 0 && p.gcd(&qd) == 1 {
                out.push((p, qd));
            }
        }
    }
    out
}

pub fn run(ctx: &Ctx) -> Finish {
    // the full sweep takes ~6 s, so both tiers run it
    let t = true;
    let deep = ctx.tier == Tier::Thorough;
    let ivs = if deep { intervals_deep() } else { intervals() };
    ctx.note("intervals", json!(ivs.len()));
    // --- interval operations
    ctx.par(ivs.len() * ivs.len(), |l, i| {
        let (a, b) = (ivs[i / ivs.len()], ivs[i % ivs.len()]);
        l.states += 1;
        let c = Case::Add { a, b };
        if ctx.want_sample(i as u64) {
            l.samples.push((i as u64, json!(c)));
        }
        check_case(l, &c);
        check_case(l, &Case::Mul { a, b });
    });
    ctx.seq(|l| {
        for a in &ivs {
            for e in 0..=6u8 {
                check_case(l, &Case::Pow { a: *a, e });
            }
            // incl. non-zero scalars far below machine epsilon (powers of two: products stay exact)
            for c in [-2.0, -0.5, 0.5, 3.0, 1.0, -1.0] {
                check_case(l, &Case::Scale { a: *a, c });
                check_case(l, &Case::Shift { a: *a, c });
            }
            // non-zero scalars far below machine epsilon (powers of two: the products stay exact;
            // shifting by them would not be exact, so they are used for scaling only)
            for c in [2f64.powi(-60), -(2f64.powi(-60))] {
                check_case(l, &Case::Scale { a: *a, c });
            }
            check_case(l, &Case::Shift { a: *a, c: 0.0 });
        }
        // as_integer_bound: endpoints on the 1/4 grid in [-3, 3] and infinite sides, containing an integer
        let inf = f64::INFINITY;
        let mut ends: Vec<f64> = (-12..=12).map(|k| k as f64 / 4.0).collect();
        ends.push(-inf);
        ends.push(inf);
        for lo in &ends {
            for up in &ends {
                if lo <= up && *lo != inf && *up != -inf && lo.ceil() <= up.floor() {
                    check_case(l, &Case::AsInteger { a: (X(*lo), X(*up)) });
                    // endpoints within the documented 1e-6 slack of an integer
                    for d in [1e-7, -1e-7] {
                        if lo.is_finite() && up.is_finite() && lo.ceil() <= up.floor() && (lo + d).ceil() <= (up - d).floor() {
                            check_case(l, &Case::AsInteger { a: (X(lo + d), X(up - d)) });
                        }
                    }
                }
            }
        }
        // endpoints beyond the range of 64-bit integers (an interval is a pair of f64, not of i64)
        let huge = [-1e300, -3e19, -1e19, -9223372036854775808.0, -9007199254740992.0, 0.0, 9007199254740992.0, 9223372036854775808.0, 1e19, 3e19, 1e300];
        for lo in huge.iter().chain([-inf].iter()) {
            for up in huge.iter().chain([inf].iter()) {
                if lo <= up {
                    check_case(l, &Case::AsInteger { a: (X(*lo), X(*up)) });
                }
            }
        }
    });
    // --- evaluate_bound
    let mut fs: Vec<FnRep> = vec![FnRep::Unset, FnRep::Const(-1.5)];
    fs.extend(gen_linear(&[1, 2], &[1.0, -0.5, 2.0, 0.0], &[0.0, -1.5], 2));
    fs.extend(gen_quadratic(&[1, 2], &[1.0, -0.5], 2, &[None, Some((vec![(2, -0.5), (1, 1.0)], 2.0))], true));
    let monos = monomials(&[1, 2], 4);
    fs.extend(gen_polynomial(&monos, &[1.0, -0.5, 0.0], 1));
    fs.extend(gen_polynomial(&monos, &[1.0, -0.5], 2));
    let few: Vec<Vec<u64>> = vec![vec![], vec![1], vec![2, 1], vec![1, 1], vec![2, 2, 2], vec![1, 2, 1, 2], vec![1, 1, 1, 1]];
    fs.extend(gen_polynomial(&few, &[1.0, -2.0], 3));
    if !t {
        fs = fs.into_iter().step_by(9).collect();
    }
    // tiny non-zero coefficients
    let tiny = 2f64.powi(-60);
    fs.push(FnRep::Lin { terms: vec![(1, tiny)], c: 0.0 });
    fs.push(FnRep::Poly { terms: vec![(vec![1, 2], -tiny)] });
    fs.push(FnRep::Quad { entries: vec![(1, 1, tiny)], lin: None });
    ctx.note("evaluate_bound_functions", json!(fs.len()));
    let base_ivs = intervals();
    let opts: Vec<Option<Iv>> = std::iter::once(None).chain(base_ivs.iter().map(|i| Some(*i))).collect();
    ctx.par(fs.len(), |l, i| {
        let f = &fs[i];
        for a in &opts {
            for b in &opts {
                l.states += 1;
                let case = Case::EvaluateBound { f: f.clone(), bounds: vec![(1, *a), (2, *b)] };
                check_case(l, &case);
            }
        }
    });
    // the same functions under the renaming 1 -> u64::MAX, 2 -> 0 (ids are opaque 64-bit numbers), on a
    // sub-grid of the interval assignments
    let ext: Vec<FnRep> = fs.iter().step_by(3).map(|f| super::c01::rename(f, &|i| if i == 1 { u64::MAX } else { 0 })).collect();
    ctx.par(ext.len(), |l, i| {
        for (ai, a) in opts.iter().enumerate() {
            for (bi, b) in opts.iter().enumerate() {
                if (ai + 2 * bi + i) % 4 != 0 {
                    continue;
                }
                l.states += 1;
                check_case(l, &Case::EvaluateBound { f: ext[i].clone(), bounds: vec![(u64::MAX, *a), (0, *b)] });
            }
        }
    });
    // --- content_factor
    let singles = reduced_fractions(60, 60);
    ctx.note("content_factor_single_fractions", json!(singles.len()));
    ctx.par(singles.len(), |l, i| {
        l.states += 1;
        for repr in ["linear", "constant", "quadratic", "polynomial"] {
            check_case(l, &Case::ContentFactor { coefs: vec![singles[i]], repr: repr.into() });
        }
    });
    let pair_pool = if t { singles.clone() } else { reduced_fractions(12, 12) };
    ctx.note("content_factor_pair_pool", json!(pair_pool.len()));
    ctx.par(pair_pool.len(), |l, i| {
        for (j, b) in pair_pool.iter().enumerate() {
            l.states += 1;
            let repr = ["linear", "quadratic", "polynomial"][(i + j) % 3];
            check_case(l, &Case::ContentFactor { coefs: vec![pair_pool[i], *b], repr: repr.into() });
        }
    });
    // triples from a small pool (two terms and a constant)
    let tri = reduced_fractions(6, 6);
    ctx.par(tri.len() * tri.len(), |l, i| {
        for c in tri.iter().step_by(3) {
            check_case(l, &Case::ContentFactor { coefs: vec![tri[i / tri.len()], tri[i % tri.len()], *c], repr: ["linear", "quadratic", "polynomial"][i % 3].into() });
        }
    });
    ctx.seq(|l| {
        check_case(l, &Case::ContentFactor { coefs: vec![(0, 1)], repr: "constant".into() });
        check_case(l, &Case::ContentFactor { coefs: vec![(0, 1), (0, 1)], repr: "linear".into() });
    });
    ctx.assume("Interval endpoints, points and coefficients of the interval part are small dyadic rationals, so pointwise values are computed exactly; containment is asserted exactly.");
    Finish {
        level: "model_checking",
        rule: "all 26 valid intervals over the endpoint alphabet {-inf,-2,-0.5,0,0.5,3,+inf}: every ordered pair through + and * (and += / *=), powers 0..6, scaling and shifting by non-zero numbers, each checked to be a valid interval enclosing the pointwise result for every alphabet point (corners, faces, interior, far points); as_integer_bound on every 1/4-grid interval containing an integer and on intervals with endpoints beyond the i64 range; evaluate_bound for a degree<=4 function family x every assignment of the 26 intervals (or no entry) to two variables x every grid point of the box (a third of the family again with ids u64::MAX and 0); content_factor for all reduced p/q with q,|p| <= 60 (singles, and all ordered pairs in thorough; q,|p| <= 12 pairs in quick) against lcm(q)/gcd(p); non-trivial = non-degenerate operation".into(),
        bounds: json!({"intervals": 26, "points": POINTS, "pow_max": 6, "evaluate_bound_vars": 2, "content_factor_q_max": 60, "content_factor_pairs_q_max": if t {60} else {12}}),
        exhaustive: t,
    }
}

pub fn replay(l: &mut Local, case: &serde_json::Value) -> Result<(), String> {
    let c: Case = serde_json::from_value(case.clone()).map_err(|e| e.to_string())?;
    check_case(l, &c);
    Ok(())
}

use crate::engine::{Ctx, Finish, Local};

pub mod c01;
pub mod c02;
pub mod c03;
pub mod c04;
pub mod c05;
pub mod c06;
pub mod c07;
pub mod c08;
pub mod c09;
pub mod c10;
pub mod c11;
pub mod c12;
pub mod c13;
pub mod c14;
pub mod c15;
pub mod c16;
pub mod c17;
pub mod c18;
pub mod c19;
pub mod c20;

pub type RunFn = fn(&Ctx) -> Finish;
pub type ReplayFn = fn(&mut Local, &serde_json::Value) -> Result<(), String>;

pub fn registry() -> Vec<(&'static str, RunFn, ReplayFn)> {
    vec![
        ("C01", c01::run as RunFn, c01::replay as ReplayFn),
        ("C02", c02::run as RunFn, c02::replay as ReplayFn),
        ("C03", c03::run as RunFn, c03::replay as ReplayFn),
        ("C04", c04::run as RunFn, c04::replay as ReplayFn),
        ("C05", c05::run as RunFn, c05::replay as ReplayFn),
        ("C06", c06::run as RunFn, c06::replay as ReplayFn),
        ("C07", c07::run as RunFn, c07::replay as ReplayFn),
        ("C08", c08::run as RunFn, c08::replay as ReplayFn),
        ("C09", c09::run as RunFn, c09::replay as ReplayFn),
        ("C10", c10::run as RunFn, c10::replay as ReplayFn),
        ("C11", c11::run as RunFn, c11::replay as ReplayFn),
        ("C12", c12::run as RunFn, c12::replay as ReplayFn),
        ("C13", c13::run as RunFn, c13::replay as ReplayFn),
        ("C14", c14::run as RunFn, c14::replay as ReplayFn),
        ("C15", c15::run as RunFn, c15::replay as ReplayFn),
        ("C16", c16::run as RunFn, c16::replay as ReplayFn),
        ("C17", c17::run as RunFn, c17::replay as ReplayFn),
        ("C18", c18::run as RunFn, c18::replay as ReplayFn),
        ("C19", c19::run as RunFn, c19::replay as ReplayFn),
        ("C20", c20::run as RunFn, c20::replay as ReplayFn),
    ]
}

/// Isolated subprocess probes (`ommx-mc child <probe> …`).
pub fn child(args: &[String]) -> i32 {
    match args.first().map(|s| s.as_str()) {
        Some("log_encode") if args.len() >= 3 => c12::child_log_encode(&args[1..]),
        _ => {
            eprintln!("ENGINE-ERROR: unknown child probe");
            2
        }
    }
}

//! C13 — integer-slack conversions preserve the feasible set.

use crate::engine::*;
use crate::refmodel::msg::*;
use crate::refmodel::poly::*;
use num::{Integer, Signed, Zero};
use ommx::v1;
use serde::{Deserialize, Serialize};
use serde_json::json;
use std::collections::BTreeMap;

/// rational coefficient p/q as written in the alphabet
pub type R = (i64, i64);

#[derive(Clone, Debug, Serialize, Deserialize)]
pub struct Case {
    /// terms: (ids, p, q) ; constant (p, q)
    pub terms: Vec<(Vec<u64>, i64, i64)>,
    pub constant: R,
    /// message variant used for the function: "linear" | "quadratic" | "polynomial"
    pub repr: String,
    /// (id, kind, lower, upper) for the variables of f
    pub vars: Vec<(u64, i32, i64, i64)>,
    pub equality: i32,
    pub method: String, // "convert" | "add_slack"
    pub param: u64,     // max_integer_range | slack_upper_bound
    pub constraint_id: u64,
    /// make this variable continuous (rejection case); 0 = none
    pub continuous_var: u64,
    /// after a successful conversion, convert a second inequality of the same instance as well
    #[serde(default)]
    pub second: bool,
    /// leave this variable of f undefined (rejection case: unknown variable id); 0 = none
    #[serde(default)]
    pub undefined_var: u64,
    /// 0: constraints listed as [7, 3, (9)]; 1: a further constraint 12 first and the list in
    /// descending id order [12, (9), 7, 3] (the constraint list is a set, not a sorted sequence)
    #[serde(default)]
    pub con_layout: u8,
    /// kind given to `continuous_var`: 3 = continuous, 5 = semi-continuous; 0 = by the parameter's parity
    #[serde(default)]
    pub continuous_kind: i32,
}

const CID: u64 = 3;
const OTHER_CID: u64 = 7;
const EXTRA_VAR: u64 = 8;
const SECOND_CID: u64 = 9;

fn fval(r: R) -> f64 {
    r.0 as f64 / r.1 as f64
}

fn build(case: &Case) -> InstRep {
    let lin: Vec<(u64, f64)> = case.terms.iter().filter(|t| t.0.len() == 1).map(|t| (t.0[0], fval((t.1, t.2)))).collect();
    let quad: Vec<(u64, u64, f64)> = case.terms.iter().filter(|t| t.0.len() == 2).map(|t| (t.0[0], t.0[1], fval((t.1, t.2)))).collect();
    let c = fval(case.constant);
    // "-split" representations list the first term twice (2c and -c) in unsorted order: wire-legal, same polynomial
    let split_lin = |lin: &Vec<(u64, f64)>| -> Vec<(u64, f64)> {
        match lin.first() {
            Some((id, co)) => {
                let mut v = vec![(*id, 2.0 * co)];
                v.extend(lin.iter().skip(1).rev().cloned());
                v.push((*id, -co));
                v
            }
            None => vec![],
        }
    };
    let f = match case.repr.as_str() {
        "linear-split" => FnRep::Lin { terms: split_lin(&lin), c },
        "quadratic-split" => {
            let mut e = quad.clone();
            if let Some((r, cc, v)) = quad.first().cloned() {
                e[0] = (r, cc, 2.0 * v);
                e.push((cc, r, -v));
            }
            FnRep::Quad { entries: e, lin: Some((split_lin(&lin), c)) }
        }
        "linear" => FnRep::Lin { terms: lin, c },
        "quadratic" => FnRep::Quad { entries: quad, lin: if lin.is_empty() && c == 0.0 { None } else { Some((lin, c)) } },
        "polynomial-split" => {
            // the constant split over two degree-0 monomials (c - 1 first, + 1 last), the first term
            // listed twice (2a and -a): wire-legal, same polynomial (exactly so for dyadic coefficients)
            let mut terms: Vec<(Vec<u64>, f64)> = vec![(vec![], c - 1.0)];
            let all: Vec<(Vec<u64>, f64)> = case.terms.iter().map(|t| (t.0.clone(), fval((t.1, t.2)))).collect();
            if let Some((ids, a)) = all.first().cloned() {
                terms.push((ids.clone(), 2.0 * a));
                terms.extend(all.iter().skip(1).rev().cloned());
                terms.push((ids.iter().rev().cloned().collect(), -a));
            }
            terms.push((vec![], 1.0));
            FnRep::Poly { terms }
        }
        _ => {
            let mut terms: Vec<(Vec<u64>, f64)> = case.terms.iter().map(|t| (t.0.clone(), fval((t.1, t.2)))).collect();
            if c != 0.0 {
                terms.push((vec![], c));
            }
            FnRep::Poly { terms }
        }
    };
    // Two list layouts (chosen by the parameter's parity) with non-contiguous ids and the maximum not
    // last, so that fresh-id schemes based on the last element (layout 0: last id 0, 0 + 1 = 1 exists)
    // or on the list length (layout 1: id nv + 2 exists) collide with an existing variable.
    let mut fvars = vec![];
    for (id, kind, lo, up) in &case.vars {
        if *id == case.undefined_var {
            continue;
        }
        // continuous, or (for even parameters) semi-continuous: neither can be matched by an integer slack
        let k = if *id == case.continuous_var {
            match case.continuous_kind {
                0 => {
                    if case.param % 2 == 1 {
                        KIND_CONTINUOUS
                    } else {
                        5
                    }
                }
                k => k,
            }
        } else {
            *kind
        };
        let b = if *kind == KIND_BINARY && *id % 2 == 1 { None } else { Some((*lo as f64, *up as f64)) };
        fvars.push(VarRep::new(*id, k, b));
    }
    let nv = case.vars.len() as u64;
    let mut vars = vec![];
    if case.param % 2 == 1 {
        vars.push(VarRep::new(EXTRA_VAR, KIND_CONTINUOUS, None));
        vars.extend(fvars.into_iter().rev());
        vars.push(VarRep::new(0, KIND_CONTINUOUS, Some((0.0, 1.0))));
    } else {
        vars.extend(fvars);
        vars.push(VarRep::new(EXTRA_VAR, KIND_CONTINUOUS, None));
        vars.push(VarRep::new(nv + 2, KIND_CONTINUOUS, Some((0.0, 1.0))));
    }
    InstRep {
        sense: SENSE_MIN,
        objective: Some(FnRep::Lin { terms: vec![(case.vars[0].0, 1.0)], c: 0.0 }),
        vars,
        constraints: {
            let other = ConRep::new(OTHER_CID, EQ_ZERO, Some(FnRep::Lin { terms: vec![(case.vars[0].0, 1.0)], c: -1.0 })).with_meta("other");
            let target = ConRep::new(CID, case.equality, Some(f)).with_meta("target");
            let second = ConRep::new(SECOND_CID, LE_ZERO, Some(FnRep::Lin { terms: vec![(case.vars[0].0, 1.0)], c: -1.0 }));
            let mut v = vec![];
            if case.con_layout == 1 {
                v.push(ConRep::new(12, LE_ZERO, Some(FnRep::Lin { terms: vec![(case.vars[0].0, -1.0)], c: -5.0 })));
                if case.second {
                    v.push(second);
                }
                v.push(other);
                v.push(target);
            } else {
                v.push(other);
                v.push(target);
                if case.second {
                    v.push(second);
                }
            }
            v
        },
        ..Default::default()
    }
}

fn eval_f64(p: &[(Vec<u64>, f64)], x: &BTreeMap<u64, f64>) -> Option<f64> {
    let mut s = 0.0;
    for (ids, c) in p {
        let mut t = *c;
        for i in ids {
            t *= *x.get(i)?;
        }
        s += t;
    }
    Some(s)
}

fn terms_of(f: &v1::Function) -> Result<Vec<(Vec<u64>, f64)>, String> {
    Ok(poly_of_function(f)?.0.into_iter().map(|(k, v)| (k, q_to_f64(&v))).collect())
}

fn lattice(vars: &[(u64, i32, i64, i64)]) -> Vec<BTreeMap<u64, f64>> {
    let mut out = vec![];
    let radix: Vec<usize> = vars.iter().map(|v| (v.3 - v.2 + 1) as usize).collect();
    odometer(&radix, |d| {
        out.push(vars.iter().zip(d).map(|(v, k)| (v.0, (v.2 + *k as i64) as f64)).collect());
    });
    out
}

const TOL: f64 = 1e-6;

/// exact rational f (the intended one)
fn exact_poly(case: &Case) -> Poly {
    let mut p = Poly::zero();
    for (ids, a, b) in &case.terms {
        p.add_term(ids.clone(), qr(*a, *b));
    }
    p.add_term(vec![], qr(case.constant.0, case.constant.1));
    p
}

/// the smallest positive a making all coefficients of a*f integral: lcm(denominators)/gcd(numerators)
fn content_factor(p: &Poly) -> Q {
    let mut g = num::BigInt::zero();
    let mut l = num::BigInt::from(1);
    for c in p.0.values() {
        g = g.gcd(c.numer());
        l = l.lcm(c.denom());
    }
    if g.is_zero() {
        qi(1)
    } else {
        Q::new(l, g)
    }
}

/// exact interval bound of p over the integer box, term by term (the same analysis the property names)
fn interval(p: &Poly, vars: &[(u64, i32, i64, i64)]) -> (Q, Q) {
    let mut lo = Q::zero();
    let mut hi = Q::zero();
    for (ids, c) in &p.0 {
        // bound of the monomial
        let mut cur = (qi(1), qi(1));
        let mut i = 0;
        while i < ids.len() {
            let id = ids[i];
            let mut e = 0;
            while i < ids.len() && ids[i] == id {
                e += 1;
                i += 1;
            }
            let v = vars.iter().find(|v| v.0 == id).unwrap();
            let (a, b) = (qi(v.2), qi(v.3));
            let pw = |x: &Q| (0..e).fold(qi(1), |acc, _| acc * x);
            let (pa, pb) = (pw(&a), pw(&b));
            let (l1, h1) = if e % 2 == 0 && a.is_negative() && b.is_positive() {
                (Q::zero(), pa.clone().max(pb.clone()))
            } else {
                (pa.clone().min(pb.clone()), pa.max(pb))
            };
            let cands = [&cur.0 * &l1, &cur.0 * &h1, &cur.1 * &l1, &cur.1 * &h1];
            cur = (cands.iter().cloned().min().unwrap(), cands.iter().cloned().max().unwrap());
        }
        let (a, b) = (c * &cur.0, c * &cur.1);
        lo += a.clone().min(b.clone());
        hi += a.max(b);
    }
    (lo, hi)
}

pub fn check_case(l: &mut Local, case: &Case) {
    l.evaluations += 1;
    l.transitions += 1;
    let inst = build(case);
    let mut msg = inst.to_msg();
    let before = msg.clone();
    let sig0 = case.method.as_str();
    let pts = lattice(&case.vars);
    let f_exact = exact_poly(case);
    let tpos = before.constraints.iter().position(|c| c.id == CID).expect("ENGINE: target constraint");
    let f_terms = terms_of(&before.constraints[tpos].function.clone().unwrap()).unwrap();
    let sat: Vec<bool> = pts.iter().map(|x| eval_f64(&f_terms, x).unwrap() < TOL).collect();
    // all alphabet values are multiples of 1/12: decisions are far from the tolerance
    for x in &pts {
        let v = eval_f64(&f_terms, x).unwrap();
        let nearest = (v * 12.0).round() / 12.0;
        if (v - nearest).abs() > 1e-9 {
            l.skipped_close += 1;
            return;
        }
    }
    let n_sat = sat.iter().filter(|s| **s).count();
    l.outcome(&(n_sat, pts.len(), &case.method, case.param));
    let result: Result<Result<Option<f64>, (String, bool)>, String> = sdk(|| {
        let r = if case.method == "convert" {
            msg.convert_inequality_to_equality_with_integer_slack(case.constraint_id, case.param).map(|_| None)
        } else {
            msg.add_integer_slack_to_inequality(case.constraint_id, case.param)
        };
        r.map_err(|e| (format!("{e:#}"), e.downcast_ref::<ommx::InfeasibleDetected>().is_some()))
    });
    let result = match result {
        Err(p) => return l.violation(&format!("{sig0}/panic"), || json!(case), p),
        Ok(r) => r,
    };
    // ---- rejections that must leave the instance untouched
    let reject_reason = if case.constraint_id != CID {
        Some("unknown-constraint-id")
    } else if case.equality != LE_ZERO {
        Some("not-an-inequality")
    } else if case.undefined_var != 0 && f_exact.vars().contains(&case.undefined_var) {
        Some("undefined-variable-id")
    } else if case.continuous_var != 0 && f_exact.vars().contains(&case.continuous_var) {
        Some("continuous-variable")
    } else {
        None
    };
    if let Some(reason) = reject_reason {
        l.nontrivial += 1;
        match result {
            Ok(_) => l.violation(&format!("{sig0}/not-rejected/{reason}{}", if reason == "not-an-inequality" { format!("/equality={}", case.equality) } else { String::new() }), || json!(case), format!("{sig0} succeeded although it must be rejected ({reason})")),
            Err(_) => {
                if msg != before {
                    l.violation(&format!("{sig0}/rejected-but-modified"), || json!(case), format!("{sig0} failed ({reason}) but modified the instance"));
                }
            }
        }
        return;
    }
    if case.continuous_var != 0 || case.undefined_var != 0 {
        return; // the marked variable does not occur in f: outside the alphabet
    }
    // For unnormalised ("-split") messages interval analysis over the listed terms is legitimately
    // weaker than over the merged polynomial: only the feasible-set and structural oracles apply.
    let normalised = !case.repr.ends_with("-split");
    let linear_distinct = normalised && f_exact.0.keys().all(|k| k.len() <= 1);
    // add_slack analyses f itself in floating point (no integer rounding): assert the determined
    // outcomes only when floats are exact (dyadic coefficients) or the margin is at least 1/12
    let dyadic = case.terms.iter().all(|t| [1, 2, 4].contains(&t.2)) && [1, 2, 4].contains(&case.constant.1);
    let (flo, fhi) = interval(&f_exact, &case.vars);
    let margin = qr(1, 12);
    let robust_pos = case.method == "convert" || dyadic || flo >= margin;
    let robust_neg = case.method == "convert" || dyadic || fhi <= -margin.clone();
    let a = content_factor(&f_exact);
    let (ilo, ihi) = interval(&f_exact.scale(&a), &case.vars);
    match result {
        Err((e, infeasible)) => {
            if msg != before {
                l.violation(&format!("{sig0}/rejected-but-modified"), || json!(case), format!("{sig0} failed ({e}) but modified the instance"));
            }
            if infeasible {
                // add_integer_slack_to_inequality analyses f in floating point with threshold exactly 0
                // (no tolerance): when the minimum of f over the box is 0 up to rounding and the
                // coefficients are not exactly representable (1/3, -2/3), "can never hold" is true for
                // the f64 coefficients as they are. Assert only when a point is clearly feasible.
                let clearly = pts.iter().any(|x| eval_f64(&f_terms, x).unwrap() < -1e-9);
                if n_sat > 0 && !clearly && !dyadic {
                    l.bump("boundary_cases_not_asserted", 1);
                } else if n_sat > 0 {
                    l.violation(
                        &format!("{sig0}/infeasibility-reported-for-satisfiable-constraint"),
                        || json!(case),
                        format!("InfeasibleDetected, but {n_sat} of {} lattice points satisfy f <= 0", pts.len()),
                    );
                }
            } else {
                // an inequality that holds on the whole box is moved whatever the limit says: no slack is needed
                if linear_distinct && !ihi.is_positive() && robust_neg {
                    l.violation(
                        &format!("{sig0}/always-satisfied-not-moved"),
                        || json!(case),
                        format!("the linear inequality holds on the whole box (interval upper bound <= 0) but the call failed with '{e}' instead of moving it to the removed constraints"),
                    );
                }
                // must be the slack-range limit (convert only)
                let range_needed = -ilo.clone();
                if normalised && (case.method == "add_slack" || range_needed <= qi(case.param as i64)) {
                    l.violation(
                        &format!("{sig0}/valid-call-rejected"),
                        || json!(case),
                        format!("{sig0} failed with '{e}' although the constraint is a valid inequality over integer variables and the slack range {} fits the limit {}", qs(&range_needed), case.param),
                    );
                }
            }
        }
        Ok(ret) => {
            l.nontrivial += 1;
            // interval analysis on linear functions over boxes is exact: these two outcomes are determined
            if linear_distinct && n_sat == 0 && ilo.is_positive() && robust_pos {
                l.violation(&format!("{sig0}/infeasible-not-detected"), || json!(case), "no point of the box satisfies the linear inequality (its interval lower bound is positive) but no infeasibility error was returned".into());
            }
            // was it moved to removed?
            let moved = msg.removed_constraints.iter().any(|r| r.constraint.as_ref().is_some_and(|c| c.id == CID));
            if moved {
                if n_sat != pts.len() {
                    l.violation(
                        &format!("{sig0}/moved-to-removed-although-not-always-satisfied"),
                        || json!(case),
                        format!("constraint moved to removed constraints, but only {n_sat} of {} lattice points satisfy it", pts.len()),
                    );
                }
                let rc = msg.removed_constraints.iter().find_map(|r| r.constraint.as_ref().filter(|c| c.id == CID)).unwrap();
                if *rc != before.constraints[tpos] {
                    l.violation(&format!("{sig0}/moved-constraint-changed"), || json!(case), "the constraint moved to removed constraints is not the original one".into());
                }
                let rest_now: Vec<&v1::Constraint> = msg.constraints.iter().collect();
                let rest_before: Vec<&v1::Constraint> = before.constraints.iter().filter(|c| c.id != CID).collect();
                if msg.constraints.iter().any(|c| c.id == CID) || msg.decision_variables != before.decision_variables || rest_now != rest_before {
                    l.violation(&format!("{sig0}/moved-but-instance-otherwise-changed"), || json!(case), "instance changed beyond moving the constraint".into());
                }
                if case.method == "add_slack" && ret.is_some() {
                    l.violation("add_slack/returned-coefficient-for-moved-constraint", || json!(case), format!("returned {ret:?} although the constraint was moved"));
                }
                return;
            }
            if linear_distinct && !ihi.is_positive() && robust_neg {
                l.violation(&format!("{sig0}/always-satisfied-not-moved"), || json!(case), "the linear inequality holds on the whole box (interval upper bound <= 0) but was not moved to the removed constraints".into());
            }
            // structure
            if msg.decision_variables.len() != before.decision_variables.len() + 1 || msg.decision_variables[..before.decision_variables.len()] != before.decision_variables[..] {
                return l.violation(&format!("{sig0}/variables"), || json!(case), "expected exactly one new decision variable and the others unchanged".into());
            }
            let sv = msg.decision_variables.last().unwrap().clone();
            let old_ids: Vec<u64> = before.decision_variables.iter().map(|v| v.id).collect();
            if old_ids.contains(&sv.id) {
                l.violation(&format!("{sig0}/slack-id-not-fresh"), || json!(case), format!("slack id {} already used by {old_ids:?}", sv.id));
            }
            let sb = sv.bound.as_ref().map(|b| (b.lower, b.upper)).unwrap_or((f64::NAN, f64::NAN));
            if sv.kind != KIND_INTEGER || sb.0 != 0.0 || !(sb.1 >= 0.0) || sb.1.fract() != 0.0 || !sb.1.is_finite() {
                return l.violation(&format!("{sig0}/slack-kind-or-bound"), || json!(case), format!("slack variable kind {} bound {sb:?}; expected integer kind with bound [0, S]", sv.kind));
            }
            if case.method == "convert" && sb.1 > case.param as f64 {
                l.violation("convert/limit-exceeded-not-rejected", || json!(case), format!("slack range {} exceeds max_integer_range {} but the call was not rejected", sb.1, case.param));
            }
            if case.method == "add_slack" && sb.1 != case.param as f64 {
                l.violation("add_slack/slack-bound", || json!(case), format!("slack bound {sb:?}, expected [0, {}]", case.param));
            }
            if msg.constraints.len() != before.constraints.len() || msg.constraints.iter().zip(&before.constraints).any(|(a, b)| b.id != CID && a != b) {
                return l.violation(&format!("{sig0}/other-constraint-changed"), || json!(case), "other constraints changed".into());
            }
            let nc = &msg.constraints[tpos];
            let want_eq = if case.method == "convert" { EQ_ZERO } else { LE_ZERO };
            if nc.id != CID || nc.equality != want_eq {
                l.violation(&format!("{sig0}/constraint-id-or-equality"), || json!(case), format!("constraint id {} equality {}, expected id {CID} equality {want_eq}", nc.id, nc.equality));
            }
            let g_terms = match nc.function.as_ref().ok_or("no function".to_string()).and_then(terms_of) {
                Ok(t) => t,
                Err(e) => return l.violation(&format!("{sig0}/unreadable"), || json!(case), e),
            };
            let slack_coef = g_terms.iter().find(|(k, _)| k == &vec![sv.id]).map(|t| t.1).unwrap_or(0.0);
            if case.method == "add_slack" {
                match ret {
                    Some(b) if b == slack_coef && b >= 0.0 => {}
                    // non-dyadic coefficients in an unnormalised message (2a - a for a = 1/3): the interval
                    // lower bound of a constraint whose exact lower bound is 0 is rounding noise of the
                    // order 1e-16, and so is b = -lower/S, which is then dropped from the function like
                    // any coefficient below machine epsilon. Not a statement about the property.
                    Some(b) if !dyadic && !normalised && b.abs() <= 1e-12 && slack_coef == 0.0 => l.bump("boundary_cases_not_asserted", 1),
                    other => l.violation("add_slack/reported-coefficient", || json!(case), format!("returned {other:?}, coefficient of the slack in the new function is {slack_coef}")),
                }
            }
            // the feasible set in x
            let mut second_ok = true;
            let smax = sb.1 as i64;
            for (x, was) in pts.iter().zip(&sat) {
                let mut now = false;
                for s in 0..=smax {
                    let mut xs = x.clone();
                    xs.insert(sv.id, s as f64);
                    let Some(g) = eval_f64(&g_terms, &xs) else {
                        return l.violation(&format!("{sig0}/new-function-uses-unknown-variable"), || json!(case), format!("{g_terms:?}"));
                    };
                    let ok = if want_eq == EQ_ZERO { g.abs() < TOL } else { g < TOL };
                    if ok {
                        now = true;
                        break;
                    }
                }
                if now != *was {
                    second_ok = false;
                    l.violation(
                        &format!("{sig0}/feasible-set-changed"),
                        || json!(case),
                        format!(
                            "x = {x:?}: original inequality {} but the converted constraint {} for s in 0..={smax} (new function {g_terms:?})",
                            if *was { "holds" } else { "is violated" },
                            if now { "can be satisfied" } else { "cannot be satisfied" }
                        ),
                    );
                    break;
                }
            }
            // a second conversion in the same instance: x_first - 1 <= 0
            if case.second && second_ok {
                l.transitions += 1;
                let ids_before: Vec<u64> = msg.decision_variables.iter().map(|v| v.id).collect();
                match sdk(|| msg.convert_inequality_to_equality_with_integer_slack(SECOND_CID, 100).map_err(|e| format!("{e:#}"))) {
                    Err(p) => l.violation("second-conversion/panic", || json!(case), p),
                    Ok(Err(e)) => {
                        // only legitimate when x_first - 1 <= 0 can never hold on the box
                        let v0 = &case.vars[0];
                        if v0.2 <= 1 {
                            l.violation("second-conversion/error", || json!(case), format!("converting the second inequality failed: {e}"));
                        }
                    }
                    Ok(Ok(())) => {
                        let moved2 = msg.removed_constraints.iter().any(|r| r.constraint.as_ref().is_some_and(|c| c.id == SECOND_CID));
                        if !moved2 {
                            let Some(s2) = msg.decision_variables.iter().find(|v| !ids_before.contains(&v.id)).cloned() else {
                                return l.violation("second-conversion/no-fresh-slack", || json!(case), format!("no decision variable with a fresh id was added (ids before: {ids_before:?}, after: {:?})", msg.decision_variables.iter().map(|v| v.id).collect::<Vec<_>>()));
                            };
                            if msg.decision_variables.iter().filter(|v| v.id == s2.id).count() != 1 || msg.decision_variables.len() != ids_before.len() + 1 {
                                l.violation("second-conversion/slack-id-not-fresh", || json!(case), format!("ids after the second conversion: {:?}", msg.decision_variables.iter().map(|v| v.id).collect::<Vec<_>>()));
                            }
                            let c2 = msg.constraints.iter().find(|c| c.id == SECOND_CID);
                            let g2 = c2.and_then(|c| c.function.as_ref()).and_then(|f| terms_of(f).ok());
                            let s2max = s2.bound.as_ref().map_or(-1.0, |b| b.upper) as i64;
                            if let Some(g2) = g2 {
                                let v0 = &case.vars[0];
                                for xv in v0.2..=v0.3 {
                                    let was = (xv as f64 - 1.0) < TOL;
                                    let now = (0..=s2max).any(|sv| {
                                        let xs: BTreeMap<u64, f64> = [(v0.0, xv as f64), (s2.id, sv as f64)].into_iter().collect();
                                        eval_f64(&g2, &xs).is_some_and(|g| g.abs() < TOL)
                                    });
                                    if was != now {
                                        l.violation("second-conversion/feasible-set-changed", || json!(case), format!("x{} = {xv}: x - 1 <= 0 is {was}, the converted second constraint is satisfiable: {now} (function {g2:?}, slack {} in 0..={s2max})", v0.0, s2.id));
                                        break;
                                    }
                                }
                            }
                        }
                    }
                }
            }
        }
    }
}

fn coef_set(full: bool) -> Vec<R> {
    if full {
        vec![(1, 1), (-1, 1), (2, 1), (-2, 1), (3, 1), (1, 2), (-1, 2), (1, 3), (-2, 3), (3, 4)]
    } else {
        vec![(1, 1), (-2, 1), (1, 2), (-2, 3)]
    }
}

const CONSTS: [R; 6] = [(-3, 1), (-1, 1), (-1, 2), (0, 1), (1, 2), (2, 1)];

fn boxes() -> Vec<(i32, i64, i64)> {
    vec![(KIND_BINARY, 0, 1), (KIND_INTEGER, 0, 1), (KIND_INTEGER, 0, 2), (KIND_INTEGER, -1, 2), (KIND_INTEGER, 1, 3)]
}

fn functions(nvars: usize, full_coefs: bool, max_terms: usize) -> Vec<(Vec<(Vec<u64>, i64, i64)>, R)> {
    let ids: Vec<u64> = (1..=nvars as u64).collect();
    let mut monos: Vec<Vec<u64>> = ids.iter().map(|i| vec![*i]).collect();
    for (a, i) in ids.iter().enumerate() {
        for j in &ids[a..] {
            // alternate the order inside the pair so that both triangle positions occur
            monos.push(if (i + j) % 2 == 0 { vec![*i, *j] } else { vec![*j, *i] });
        }
    }
    let coefs = coef_set(full_coefs);
    let mut out = vec![];
    let m = monos.len();
    // subsets of monomials of size 0..=max_terms
    for mask in 0u32..(1 << m) {
        let k = mask.count_ones() as usize;
        if k > max_terms {
            continue;
        }
        let chosen: Vec<&Vec<u64>> = (0..m).filter(|b| mask >> b & 1 == 1).map(|b| &monos[b]).collect();
        odometer(&vec![coefs.len(); k], |d| {
            let terms: Vec<(Vec<u64>, i64, i64)> = chosen.iter().zip(d).map(|(mo, ci)| ((*mo).clone(), coefs[*ci].0, coefs[*ci].1)).collect();
            for c in CONSTS {
                out.push((terms.clone(), c));
            }
        });
    }
    out
}

pub fn run(ctx: &Ctx) -> Finish {
    let t = ctx.tier == Tier::Thorough;
    let bx = boxes();
    let mut plans: Vec<(usize, Vec<(Vec<(Vec<u64>, i64, i64)>, R)>)> = vec![];
    plans.push((1, functions(1, true, 2)));
    plans.push((2, functions(2, true, if t { 3 } else { 2 })));
    if t {
        plans.push((3, functions(3, false, 3)));
    } else {
        plans.push((3, functions(3, false, 2)));
    }
    let convert_params = [1u64, 3, 100];
    let slack_params = [1u64, 2, 5];
    for (nv, fs) in &plans {
        ctx.note(&format!("functions_{nv}_vars"), json!(fs.len()));
        let mut box_cfgs: Vec<Vec<usize>> = vec![];
        odometer(&vec![bx.len(); *nv], |d| box_cfgs.push(d.to_vec()));
        ctx.par(fs.len(), |l, i| {
            let (terms, constant) = &fs[i];
            let has_quad = terms.iter().any(|t| t.0.len() == 2);
            for (bi, bc) in box_cfgs.iter().enumerate() {
                // quick tier: for 3 variables walk a fixed sub-grid of box configurations
                if !t && *nv == 3 && (bi + i) % 5 != 0 {
                    continue;
                }
                let vars: Vec<(u64, i32, i64, i64)> = bc.iter().enumerate().map(|(k, b)| (k as u64 + 1, bx[*b].0, bx[*b].1, bx[*b].2)).collect();
                l.states += 1;
                let repr = if !has_quad && (i + bi) % 4 == 3 {
                    "linear-split"
                } else if !has_quad && (i + bi) % 3 != 2 {
                    "linear"
                } else if (i + bi) % 5 == 4 {
                    "quadratic-split"
                } else if (i + bi) % 2 == 0 {
                    "quadratic"
                } else {
                    "polynomial"
                };
                for (method, params) in [("convert", &convert_params), ("add_slack", &slack_params)] {
                    for p in params.iter() {
                        let case = Case {
                            terms: terms.clone(),
                            constant: *constant,
                            repr: repr.to_string(),
                            vars: vars.clone(),
                            equality: LE_ZERO,
                            method: method.to_string(),
                            param: *p,
                            constraint_id: CID,
                            continuous_var: 0,
                            second: false,
                            undefined_var: 0,
                            con_layout: ((bi + i) % 2) as u8,
                            continuous_kind: 0,
                        };
                        if method == "convert" && (bi + i) % 4 == 1 {
                            let mut c2 = case.clone();
                            c2.second = true;
                            check_case(l, &c2);
                        }
                        if bi == 3 && *p == 3 && ctx.want_sample((*nv * 10_000_000 + i) as u64) {
                            l.samples.push(((*nv * 10_000_000 + i) as u64, json!(case)));
                        }
                        check_case(l, &case);
                        if (bi + i) % 3 == 0 {
                            let mut c = case.clone();
                            c.repr = "polynomial-split".into();
                            check_case(l, &c);
                        }
                        // rejection conditions on a sub-grid of the same bases
                        if *p == params[1] && (bi + i) % 7 == 0 {
                            let mut c = case.clone();
                            c.constraint_id = 99;
                            check_case(l, &c);
                            // every value of the equality field other than "<= 0": = 0, unspecified (the
                            // protobuf default) and a raw value outside the enumeration
                            for e in [EQ_ZERO, 0, 7] {
                                let mut c = case.clone();
                                c.equality = e;
                                check_case(l, &c);
                            }
                            for v in &vars {
                                for ck in [KIND_CONTINUOUS, 5] {
                                    let mut c = case.clone();
                                    c.continuous_var = v.0;
                                    c.continuous_kind = ck;
                                    check_case(l, &c);
                                }
                                let mut c = case.clone();
                                c.undefined_var = v.0;
                                check_case(l, &c);
                            }
                        }
                    }
                }
            }
        });
    }
    ctx.assume("Feasibility at lattice points uses the 1e-6 tolerance rule on f64 evaluation of the message's coefficients; every alphabet value is a multiple of 1/12, so all decisions are at least 0.08 away from the tolerance (skipped_too_close_to_threshold must be 0).");
    ctx.assume("'Always satisfied => moved' and 'never satisfiable => infeasibility error' are asserted in the converse direction only for linear functions, where interval analysis over a box is exact.");
    Finish {
        level: "model_checking",
        rule: "every inequality f(x) <= 0 with f = up to 3 distinct monomials of degree <= 2 (coefficients from the rational alphabet) + constant over 1..3 integer/binary variables, every assignment of the 5 boxes to the variables, both methods x 3 parameter values; brute force over EVERY lattice point of the box and EVERY slack value: feasible set in x unchanged, slack variable integer/fresh/[0,S], same constraint id, returned b = slack coefficient; moved => unchanged and always satisfied; InfeasibleDetected => no lattice point satisfies; rejections (unknown constraint id, a variable of f that is not defined, equality, continuous variable, range above limit) leave the instance unchanged".into(),
        bounds: json!({"coefficients": "±1,±2,3,±1/2,1/3,-2/3,3/4", "constants": "-3,-1,-1/2,0,1/2,2", "boxes": "{0,1}bin,[0,1],[0,2],[-1,2],[1,3]", "vars_max": 3, "terms_max": ctx.tier.pick(2,3), "max_integer_range": convert_params, "slack_upper_bound": slack_params}),
        exhaustive: t,
    }
}

pub fn replay(l: &mut Local, case: &serde_json::Value) -> Result<(), String> {
    let c: Case = serde_json::from_value(case.clone()).map_err(|e| e.to_string())?;
    check_case(l, &c);
    Ok(())
}

//! C07 — the wire format matches the published schema and round-trips.
//!
//! The model is the schema itself (parsed from proto/ by /verif/schema/schema_tools.py, which also
//! binds it statically to the prost attributes and to the descriptors embedded in the Python
//! bindings). Every model state (field-set) of every message type is replayed on the real prost
//! code through an independent, schema-driven wire codec.

use crate::engine::*;
use ommx::{v1, Message};
use serde::{Deserialize, Serialize};
use serde_json::{json, Value};
use std::collections::{BTreeMap, BTreeSet};

#[derive(Clone, Debug, Deserialize)]
pub struct FieldDef {
    pub name: String,
    pub number: u32,
    #[serde(rename = "type")]
    pub ty: String,
    pub label: String,
    pub oneof: Option<String>,
}

#[derive(Clone, Debug, Deserialize)]
pub struct MsgDef {
    pub fields: Vec<FieldDef>,
}

#[derive(Clone, Debug)]
pub struct Schema {
    pub messages: BTreeMap<String, MsgDef>,
    pub enums: BTreeMap<String, BTreeMap<String, i64>>,
    /// schema fqn -> (proto field name -> Rust field identifier (the oneof field for arms))
    pub rust_names: BTreeMap<String, BTreeMap<String, String>>,
}

/// Abstract wire-level value.
#[derive(Clone, Debug, PartialEq, Eq, PartialOrd, Ord, Hash, Serialize, Deserialize)]
pub enum Val {
    /// uint64 / bool
    U(u64),
    /// int64 / int32 / enum (two's complement varint)
    I(i64),
    /// double, as bits
    F(u64),
    S(String),
    /// message: entries (field number, value) in encoding order; repeated fields repeat the number
    M(Vec<(u32, Val)>),
}

#[derive(Clone, Debug, Serialize, Deserialize)]
pub enum Case {
    /// a disagreement found by the static comparison
    Static { binding: String, message: String, detail: String },
    /// one model state of one message type
    State { message: String, value: Val, encoding: String },
    LegacyArtifact { path: String },
    /// the SDK's byte-returning entry points (what the Python binding receives): "mps" | "qplib"
    BytesEntryPoint { format: String },
    /// an OCI archive written by another conforming implementation (published media types)
    ForeignArchive {
        kind: u8,
        annotated: bool,
        /// 0 = the all-default message (encodes to zero bytes), 1 = a non-trivial one
        #[serde(default = "one")]
        variant: u8,
    },
    /// such an archive with two layers (kind, variant, annotated): equal bytes under different media
    /// types, the same message twice under different annotations, every order
    ForeignArchive2 { a: (u8, u8, bool), b: (u8, u8, bool) },
    /// an archive written by the SDK's own builder with two layers, read back layer by layer (C20's check)
    SdkArchive2 { a: (u8, u8, bool), b: (u8, u8, bool) },
    /// a sample set in the field layout written by earlier releases (see C15), read back sample by sample
    LegacySampleSet { samples: Vec<(f64, u8)>, sense: i32 },
}

fn one() -> u8 {
    1
}

// ------------------------------------------------------------------------------------------
// independent wire codec
// ------------------------------------------------------------------------------------------

fn put_varint(out: &mut Vec<u8>, mut v: u64) {
    loop {
        let b = (v & 0x7f) as u8;
        v >>= 7;
        if v == 0 {
            out.push(b);
            return;
        }
        out.push(b | 0x80);
    }
}

fn wire_type(ty: &str) -> u8 {
    match ty {
        "double" => 1,
        "string" => 2,
        t if t.starts_with("message:") || t.starts_with("map<") => 2,
        _ => 0,
    }
}

fn map_kv(ty: &str) -> (String, String) {
    let inner = &ty[4..ty.len() - 1];
    let (k, v) = inner.split_once(',').expect("ENGINE: map type");
    (k.to_string(), v.to_string())
}

fn enc_scalar(out: &mut Vec<u8>, ty: &str, v: &Val) {
    match (ty, v) {
        ("double", Val::F(b)) => out.extend_from_slice(&b.to_le_bytes()),
        ("string", Val::S(s)) => {
            put_varint(out, s.len() as u64);
            out.extend_from_slice(s.as_bytes());
        }
        (_, Val::U(u)) => put_varint(out, *u),
        (_, Val::I(i)) => put_varint(out, *i as u64),
        other => panic!("ENGINE: cannot encode {other:?}"),
    }
}

#[derive(Clone, Copy, PartialEq)]
pub struct EncOpts {
    pub reversed: bool,
    pub packed: bool,
    pub unknown: bool,
}

pub fn encode(schema: &Schema, msg: &str, entries: &[(u32, Val)], o: EncOpts) -> Vec<u8> {
    let def = &schema.messages[msg];
    let mut chunks: Vec<Vec<u8>> = vec![];
    let mut i = 0;
    while i < entries.len() {
        let (num, val) = &entries[i];
        let f = def.fields.iter().find(|f| f.number == *num).unwrap_or_else(|| panic!("ENGINE: field {num} of {msg}"));
        let mut out = vec![];
        let packable = f.label == "repeated" && wire_type(&f.ty) != 2;
        if packable && o.packed {
            // gather the run of the same field
            let mut body = vec![];
            let mut j = i;
            while j < entries.len() && entries[j].0 == *num {
                enc_scalar(&mut body, &f.ty, &entries[j].1);
                j += 1;
            }
            put_varint(&mut out, ((*num as u64) << 3) | 2);
            put_varint(&mut out, body.len() as u64);
            out.extend(body);
            i = j;
        } else {
            put_varint(&mut out, ((*num as u64) << 3) | wire_type(&f.ty) as u64);
            if let Some(m) = f.ty.strip_prefix("message:") {
                let Val::M(inner) = val else { panic!("ENGINE: message value") };
                let body = encode(schema, m, inner, EncOpts { unknown: false, ..o });
                put_varint(&mut out, body.len() as u64);
                out.extend(body);
            } else if f.ty.starts_with("map<") {
                let (kt, vt) = map_kv(&f.ty);
                let Val::M(inner) = val else { panic!("ENGINE: map entry value") };
                let mut body = vec![];
                for (n, x) in inner {
                    let t = if *n == 1 { &kt } else { &vt };
                    put_varint(&mut body, ((*n as u64) << 3) | wire_type(t) as u64);
                    if let Some(m) = t.strip_prefix("message:") {
                        let Val::M(mm) = x else { panic!("ENGINE") };
                        let b2 = encode(schema, m, mm, EncOpts { unknown: false, ..o });
                        put_varint(&mut body, b2.len() as u64);
                        body.extend(b2);
                    } else {
                        enc_scalar(&mut body, t, x);
                    }
                }
                put_varint(&mut out, body.len() as u64);
                out.extend(body);
            } else {
                enc_scalar(&mut out, &f.ty, val);
            }
            i += 1;
        }
        chunks.push(out);
    }
    if o.reversed {
        // reversing whole-field chunks keeps the relative order inside each repeated field? No:
        // reverse only across different fields by a stable sort on descending field number.
        let mut keyed: Vec<(u32, Vec<u8>)> = vec![];
        let mut k = 0;
        let mut idx = 0;
        while idx < entries.len() && k < chunks.len() {
            keyed.push((entries[idx].0, chunks[k].clone()));
            // advance idx past what chunk k consumed
            let num = entries[idx].0;
            let f = def.fields.iter().find(|f| f.number == num).unwrap();
            if f.label == "repeated" && wire_type(&f.ty) != 2 && o.packed {
                while idx < entries.len() && entries[idx].0 == num {
                    idx += 1;
                }
            } else {
                idx += 1;
            }
            k += 1;
        }
        keyed.sort_by(|a, b| b.0.cmp(&a.0));
        chunks = keyed.into_iter().map(|x| x.1).collect();
    }
    let mut out: Vec<u8> = chunks.into_iter().flatten().collect();
    if o.unknown {
        // unknown fields of every wire type
        put_varint(&mut out, (1000 << 3) | 0);
        put_varint(&mut out, 300);
        put_varint(&mut out, (1001 << 3) | 1);
        out.extend_from_slice(&1.5f64.to_le_bytes());
        put_varint(&mut out, (1002 << 3) | 2);
        put_varint(&mut out, 3);
        out.extend_from_slice(b"abc");
        put_varint(&mut out, (1003 << 3) | 5);
        out.extend_from_slice(&7u32.to_le_bytes());
    }
    out
}

fn get_varint(b: &[u8], i: &mut usize) -> Result<u64, String> {
    let mut v = 0u64;
    let mut shift = 0;
    loop {
        let c = *b.get(*i).ok_or("truncated varint")?;
        *i += 1;
        v |= ((c & 0x7f) as u64) << shift;
        if c & 0x80 == 0 {
            return Ok(v);
        }
        shift += 7;
        if shift > 63 {
            return Err("varint too long".into());
        }
    }
}

fn dec_scalar(ty: &str, wt: u8, b: &[u8], i: &mut usize) -> Result<Val, String> {
    match (ty, wt) {
        ("double", 1) => {
            let s = b.get(*i..*i + 8).ok_or("truncated double")?;
            *i += 8;
            Ok(Val::F(u64::from_le_bytes(s.try_into().unwrap())))
        }
        ("string", 2) => {
            let n = get_varint(b, i)? as usize;
            let s = b.get(*i..*i + n).ok_or("truncated string")?;
            *i += n;
            Ok(Val::S(String::from_utf8(s.to_vec()).map_err(|e| e.to_string())?))
        }
        ("uint64", 0) | ("bool", 0) | ("uint32", 0) => Ok(Val::U(get_varint(b, i)?)),
        (t, 0) if t == "int64" || t == "int32" || t.starts_with("enum:") => Ok(Val::I(get_varint(b, i)? as i64)),
        other => Err(format!("field of type {} encoded with wire type {}", other.0, other.1)),
    }
}

/// decodes bytes written by prost back into abstract entries, checking wire types against the schema
pub fn decode(schema: &Schema, msg: &str, b: &[u8]) -> Result<Vec<(u32, Val)>, String> {
    let def = &schema.messages[msg];
    let mut i = 0;
    let mut out = vec![];
    while i < b.len() {
        let key = get_varint(b, &mut i)?;
        let (num, wt) = ((key >> 3) as u32, (key & 7) as u8);
        let f = def.fields.iter().find(|f| f.number == num).ok_or_else(|| format!("{msg}: prost wrote field number {num}, which the schema does not define"))?;
        if let Some(m) = f.ty.strip_prefix("message:") {
            if wt != 2 {
                return Err(format!("{msg}.{}: message field with wire type {wt}", f.name));
            }
            let n = get_varint(b, &mut i)? as usize;
            let body = b.get(i..i + n).ok_or("truncated message")?;
            i += n;
            out.push((num, Val::M(decode(schema, m, body)?)));
        } else if f.ty.starts_with("map<") {
            if wt != 2 {
                return Err(format!("{msg}.{}: map field with wire type {wt}", f.name));
            }
            let (kt, vt) = map_kv(&f.ty);
            let n = get_varint(b, &mut i)? as usize;
            let body = b.get(i..i + n).ok_or("truncated map entry")?;
            i += n;
            let mut j = 0;
            let mut entry = vec![];
            while j < body.len() {
                let k2 = get_varint(body, &mut j)?;
                let (n2, w2) = ((k2 >> 3) as u32, (k2 & 7) as u8);
                let t = match n2 {
                    1 => &kt,
                    2 => &vt,
                    _ => return Err(format!("{msg}.{}: map entry with field {n2}", f.name)),
                };
                if let Some(m) = t.strip_prefix("message:") {
                    let len = get_varint(body, &mut j)? as usize;
                    let bb = body.get(j..j + len).ok_or("truncated")?;
                    j += len;
                    entry.push((n2, Val::M(decode(schema, m, bb)?)));
                } else {
                    entry.push((n2, dec_scalar(t, w2, body, &mut j)?));
                }
            }
            out.push((num, Val::M(entry)));
        } else if f.label == "repeated" && wt == 2 && wire_type(&f.ty) != 2 {
            // packed
            let n = get_varint(b, &mut i)? as usize;
            let body = b.get(i..i + n).ok_or("truncated packed field")?;
            i += n;
            let mut j = 0;
            while j < body.len() {
                out.push((num, dec_scalar(&f.ty, wire_type(&f.ty), body, &mut j)?));
            }
        } else {
            out.push((num, dec_scalar(&f.ty, wt, b, &mut i).map_err(|e| format!("{msg}.{}: {e}", f.name))?));
        }
    }
    Ok(out)
}

fn is_default(ty: &str, v: &Val) -> bool {
    match v {
        Val::U(0) | Val::I(0) => true,
        Val::F(0) => ty == "double",
        Val::S(s) => s.is_empty(),
        _ => false,
    }
}

/// canonical form: per field number the list of values; implicit-presence defaults dropped; map
/// entries completed with default key/value and sorted; nested messages canonicalised
pub fn canon(schema: &Schema, msg: &str, entries: &[(u32, Val)]) -> BTreeMap<u32, Vec<Val>> {
    let def = &schema.messages[msg];
    let mut out: BTreeMap<u32, Vec<Val>> = BTreeMap::new();
    for (num, v) in entries {
        let f = def.fields.iter().find(|f| f.number == *num).expect("ENGINE: canon field");
        let cv = if let Some(m) = f.ty.strip_prefix("message:") {
            let Val::M(inner) = v else { panic!("ENGINE") };
            Val::M(canon(schema, m, inner).into_iter().flat_map(|(k, vs)| vs.into_iter().map(move |x| (k, x))).collect())
        } else if f.ty.starts_with("map<") {
            let (kt, vt) = map_kv(&f.ty);
            let Val::M(inner) = v else { panic!("ENGINE") };
            let dflt = |t: &str| -> Val {
                match t {
                    "double" => Val::F(0),
                    "string" => Val::S(String::new()),
                    "uint64" | "bool" | "uint32" => Val::U(0),
                    t if t.starts_with("message:") => Val::M(vec![]),
                    _ => Val::I(0),
                }
            };
            let k = inner.iter().rev().find(|e| e.0 == 1).map(|e| e.1.clone()).unwrap_or_else(|| dflt(&kt));
            let mut val = inner.iter().rev().find(|e| e.0 == 2).map(|e| e.1.clone()).unwrap_or_else(|| dflt(&vt));
            if let (Some(m), Val::M(mm)) = (vt.strip_prefix("message:"), &val) {
                val = Val::M(canon(schema, m, mm).into_iter().flat_map(|(k, vs)| vs.into_iter().map(move |x| (k, x))).collect());
            }
            Val::M(vec![(1, k), (2, val)])
        } else {
            v.clone()
        };
        let singular_implicit = f.label == "singular" && !f.ty.starts_with("message:");
        if singular_implicit && is_default(&f.ty, &cv) {
            out.remove(num);
            continue;
        }
        let e = out.entry(*num).or_default();
        if f.label == "repeated" || f.label == "map" {
            e.push(cv);
        } else {
            *e = vec![cv]; // last one wins
        }
    }
    // oneof: only the last set arm survives
    let mut groups: BTreeMap<&str, Vec<u32>> = BTreeMap::new();
    for f in &def.fields {
        if let Some(g) = &f.oneof {
            groups.entry(g.as_str()).or_default().push(f.number);
        }
    }
    for nums in groups.values() {
        let last = entries.iter().rev().find(|e| nums.contains(&e.0)).map(|e| e.0);
        for n in nums {
            if Some(*n) != last {
                out.remove(n);
            }
        }
    }
    for (num, vs) in out.iter_mut() {
        let f = def.fields.iter().find(|f| f.number == *num).unwrap();
        if f.label == "map" {
            // later duplicates of a key replace earlier ones; order is irrelevant
            let mut m: BTreeMap<Val, Val> = BTreeMap::new();
            for v in vs.iter() {
                if let Val::M(kv) = v {
                    m.insert(kv[0].1.clone(), kv[1].1.clone());
                }
            }
            *vs = m.into_iter().map(|(k, v)| Val::M(vec![(1, k), (2, v)])).collect();
        }
    }
    out
}

// ------------------------------------------------------------------------------------------
// dispatch to the real prost types
// ------------------------------------------------------------------------------------------

/// (Debug rendering, re-encoded bytes, decode(encode(m)) == m)
type Rt = Result<(String, Vec<u8>, bool), String>;

macro_rules! table {
    ($($name:literal => $ty:ty),* $(,)?) => {
        fn roundtrip(name: &str, bytes: &[u8]) -> Option<Rt> {
            match name {
                $($name => Some(<$ty>::decode(bytes).map_err(|e| e.to_string()).map(|m| {
                    let re = m.encode_to_vec();
                    let again = <$ty>::decode(re.as_slice()).map(|m2| m2 == m).unwrap_or(false);
                    (format!("{m:?}"), re, again)
                })),)*
                _ => None,
            }
        }
        fn table_names() -> Vec<&'static str> { vec![$($name),*] }
    };
}

table! {
    "ommx.v1.Linear" => v1::Linear,
    "ommx.v1.Linear.Term" => v1::linear::Term,
    "ommx.v1.Monomial" => v1::Monomial,
    "ommx.v1.Polynomial" => v1::Polynomial,
    "ommx.v1.Quadratic" => v1::Quadratic,
    "ommx.v1.Function" => v1::Function,
    "ommx.v1.Constraint" => v1::Constraint,
    "ommx.v1.EvaluatedConstraint" => v1::EvaluatedConstraint,
    "ommx.v1.RemovedConstraint" => v1::RemovedConstraint,
    "ommx.v1.OneHot" => v1::OneHot,
    "ommx.v1.SOS1" => v1::Sos1,
    "ommx.v1.ConstraintHints" => v1::ConstraintHints,
    "ommx.v1.Bound" => v1::Bound,
    "ommx.v1.DecisionVariable" => v1::DecisionVariable,
    "ommx.v1.Parameters" => v1::Parameters,
    "ommx.v1.Instance" => v1::Instance,
    "ommx.v1.Instance.Description" => v1::instance::Description,
    "ommx.v1.Parameter" => v1::Parameter,
    "ommx.v1.ParametricInstance" => v1::ParametricInstance,
    "ommx.v1.State" => v1::State,
    "ommx.v1.Solution" => v1::Solution,
    "ommx.v1.Infeasible" => v1::Infeasible,
    "ommx.v1.Unbounded" => v1::Unbounded,
    "ommx.v1.Result" => v1::Result,
    "ommx.v1.Samples" => v1::Samples,
    "ommx.v1.Samples.SamplesEntry" => v1::samples::SamplesEntry,
    "ommx.v1.SampledValues" => v1::SampledValues,
    "ommx.v1.SampledValues.SampledValuesEntry" => v1::sampled_values::SampledValuesEntry,
    "ommx.v1.SampledDecisionVariable" => v1::SampledDecisionVariable,
    "ommx.v1.SampledConstraint" => v1::SampledConstraint,
    "ommx.v1.SampleSet" => v1::SampleSet,
}

/// top-level `field: text` pairs of a derived Debug rendering `Name { a: .., b: .. }`
fn debug_fields(s: &str) -> BTreeMap<String, String> {
    let mut out = BTreeMap::new();
    let Some(open) = s.find('{') else { return out };
    let body = &s[open + 1..s.rfind('}').unwrap_or(s.len())];
    let mut depth = 0i32;
    let mut in_str = false;
    let mut esc = false;
    let mut start = 0;
    let bytes: Vec<char> = body.chars().collect();
    let mut parts: Vec<String> = vec![];
    for (i, c) in bytes.iter().enumerate() {
        if in_str {
            if esc {
                esc = false;
            } else if *c == '\\' {
                esc = true;
            } else if *c == '"' {
                in_str = false;
            }
            continue;
        }
        match c {
            '"' => in_str = true,
            '(' | '[' | '{' => depth += 1,
            ')' | ']' | '}' => depth -= 1,
            ',' if depth == 0 => {
                parts.push(bytes[start..i].iter().collect());
                start = i + 1;
            }
            _ => {}
        }
    }
    parts.push(bytes[start..].iter().collect());
    for p in parts {
        if let Some((k, v)) = p.split_once(':') {
            out.insert(k.trim().trim_start_matches("r#").to_string(), v.trim().to_string());
        }
    }
    out
}

fn upper_camel_of_value(enum_fqn: &str, value_name: &str) -> String {
    // prost-build: strip the enum-name prefix, then UpperCamelCase
    let ename = enum_fqn.rsplit('.').next().unwrap();
    let mut snake = String::new();
    for (i, c) in ename.chars().enumerate() {
        if c.is_uppercase() && i > 0 {
            snake.push('_');
        }
        snake.push(c.to_ascii_uppercase());
    }
    let rest = value_name.strip_prefix(&format!("{snake}_")).unwrap_or(value_name);
    rest.split('_').map(|w| {
        let mut cs = w.chars();
        match cs.next() {
            Some(f) => f.to_uppercase().collect::<String>() + &cs.as_str().to_lowercase(),
            None => String::new(),
        }
    }).collect()
}

// ------------------------------------------------------------------------------------------
// states
// ------------------------------------------------------------------------------------------

fn scalar_value(ty: &str, number: u32, k: usize) -> Val {
    match ty {
        "double" => Val::F(((number as f64) + 0.5 + k as f64).to_bits()),
        "string" => Val::S(format!("s{number}-{k}")),
        "bool" => Val::U(1),
        "uint64" | "uint32" => Val::U(number as u64 * 1000 + 7 + k as u64 * (1 << 40)),
        t if t.starts_with("enum:") => Val::I(1),
        _ => Val::I(-(number as i64 * 3 + 1) - k as i64),
    }
}

/// a populated nested message: every scalar / enum field set, repeated scalars with one element,
/// message-typed fields populated while `depth > 0`
fn populated(schema: &Schema, msg: &str, depth: usize, k: usize) -> Vec<(u32, Val)> {
    let def = &schema.messages[msg];
    let mut out = vec![];
    let mut seen_oneof = BTreeSet::new();
    for f in &def.fields {
        if let Some(g) = &f.oneof {
            if !seen_oneof.insert(g.clone()) {
                continue;
            }
        }
        if let Some(m) = f.ty.strip_prefix("message:") {
            if depth > 0 {
                out.push((f.number, Val::M(populated(schema, m, depth - 1, k))));
            }
        } else if f.ty.starts_with("map<") {
            let (kt, vt) = map_kv(&f.ty);
            let v = if let Some(m) = vt.strip_prefix("message:") { Val::M(if depth > 0 { populated(schema, m, depth - 1, k) } else { vec![] }) } else { scalar_value(&vt, f.number, k) };
            out.push((f.number, Val::M(vec![(1, scalar_value(&kt, f.number, k)), (2, v)])));
        } else {
            out.push((f.number, scalar_value(&f.ty, f.number, k)));
        }
    }
    out
}

/// the alternatives for one slot (a plain field, or a oneof group): each is a list of entries
fn slot_alternatives(schema: &Schema, def: &MsgDef, slot: &Slot) -> Vec<Vec<(u32, Val)>> {
    let field_alts = |f: &FieldDef| -> Vec<Vec<(u32, Val)>> {
        let one = |k: usize| -> Val {
            if let Some(m) = f.ty.strip_prefix("message:") {
                Val::M(populated(schema, m, 1, k))
            } else if f.ty.starts_with("map<") {
                let (kt, vt) = map_kv(&f.ty);
                let v = if let Some(m) = vt.strip_prefix("message:") { Val::M(populated(schema, m, 1, k)) } else { scalar_value(&vt, f.number, k) };
                Val::M(vec![(1, scalar_value(&kt, f.number, k)), (2, v)])
            } else {
                scalar_value(&f.ty, f.number, k)
            }
        };
        let mut alts = vec![];
        match f.label.as_str() {
            "repeated" => {
                alts.push(vec![(f.number, one(0))]);
                alts.push(vec![(f.number, one(0)), (f.number, one(1))]);
            }
            "map" => {
                alts.push(vec![(f.number, one(0))]);
                alts.push(vec![(f.number, one(0)), (f.number, one(1))]);
            }
            _ => {
                if let Some(e) = f.ty.strip_prefix("enum:") {
                    for v in schema.enums[e].values() {
                        alts.push(vec![(f.number, Val::I(*v))]);
                    }
                    alts.push(vec![(f.number, Val::I(77))]); // undeclared value
                } else {
                    alts.push(vec![(f.number, one(0))]);
                    if f.ty.starts_with("message:") {
                        alts.push(vec![(f.number, Val::M(vec![]))]); // present but empty
                    }
                    if f.label == "optional" && !f.ty.starts_with("message:") {
                        // explicit presence: the default value must survive
                        let d = match f.ty.as_str() {
                            "double" => Val::F(0),
                            "string" => Val::S(String::new()),
                            "bool" | "uint64" | "uint32" => Val::U(0),
                            _ => Val::I(0),
                        };
                        alts.push(vec![(f.number, d)]);
                    }
                }
            }
        }
        alts
    };
    match slot {
        Slot::Field(n) => field_alts(def.fields.iter().find(|f| f.number == *n).unwrap()),
        Slot::Oneof(g) => def.fields.iter().filter(|f| f.oneof.as_deref() == Some(g.as_str())).flat_map(field_alts).collect(),
    }
}

#[derive(Clone, Debug, PartialEq, Eq, PartialOrd, Ord)]
enum Slot {
    Field(u32),
    Oneof(String),
}

fn slots(def: &MsgDef) -> Vec<Slot> {
    let mut s: Vec<Slot> = vec![];
    for f in &def.fields {
        let sl = match &f.oneof {
            Some(g) => Slot::Oneof(g.clone()),
            None => Slot::Field(f.number),
        };
        if !s.contains(&sl) {
            s.push(sl);
        }
    }
    s
}

fn load_schema() -> Result<(Schema, Vec<(String, String, String)>, Value), String> {
    let out = std::process::Command::new("python3")
        .arg(format!("{VERIF_ROOT}/schema/schema_tools.py"))
        .arg("/repo")
        .output()
        .map_err(|e| format!("cannot run python3: {e}"))?;
    if !out.status.success() {
        return Err(format!("schema_tools.py failed: {}", String::from_utf8_lossy(&out.stderr)));
    }
    let v: Value = serde_json::from_slice(&out.stdout).map_err(|e| format!("schema_tools.py output: {e}"))?;
    let messages: BTreeMap<String, MsgDef> = serde_json::from_value(v["model"]["messages"].clone()).map_err(|e| e.to_string())?;
    let enums: BTreeMap<String, BTreeMap<String, i64>> = serde_json::from_value(v["model"]["enums"].clone()).map_err(|e| e.to_string())?;
    // rust names keyed by the schema fqn (case-insensitive match of the prost-renamed message name)
    let rn: BTreeMap<String, BTreeMap<String, String>> = serde_json::from_value(v["rust"]["rust_field_names"].clone()).map_err(|e| e.to_string())?;
    let mut rust_names = BTreeMap::new();
    for fqn in messages.keys() {
        if let Some((_, names)) = rn.iter().find(|(k, _)| k.to_lowercase() == fqn.to_lowercase()) {
            rust_names.insert(fqn.clone(), names.clone());
        }
    }
    let diffs = v["diffs"].as_array().cloned().unwrap_or_default().iter().map(|d| (d["binding"].as_str().unwrap_or("").to_string(), d["message"].as_str().unwrap_or("").to_string(), d["detail"].as_str().unwrap_or("").to_string())).collect();
    let summary = json!({"schema_messages": messages.len(), "schema_enums": enums.len(), "schema_fields": messages.values().map(|m| m.fields.len()).sum::<usize>(),
        "rust_messages": v["rust"]["messages"].as_object().map_or(0, |m| m.len()), "python_messages": v["python"]["messages"].as_object().map_or(0, |m| m.len()), "pyi_classes": v["pyi"].as_object().map_or(0, |m| m.len())});
    Ok((Schema { messages, enums, rust_names }, diffs, summary))
}

thread_local! {
    static SCHEMA: std::cell::RefCell<Option<std::sync::Arc<Schema>>> = const { std::cell::RefCell::new(None) };
}

fn parse_enc(s: &str) -> EncOpts {
    EncOpts { reversed: s.contains("reversed"), packed: !s.contains("unpacked"), unknown: s.contains("unknown") }
}

pub fn check_state(l: &mut Local, schema: &Schema, case: &Case) {
    let Case::State { message, value, encoding } = case else { return };
    let Val::M(entries) = value else { panic!("ENGINE: state value") };
    l.evaluations += 1;
    l.transitions += 2;
    if !entries.is_empty() {
        l.nontrivial += 1;
    }
    let short = message.trim_start_matches("ommx.v1.");
    let bytes = encode(schema, message, entries, parse_enc(encoding));
    let want = canon(schema, message, entries);
    l.outcome(&(message, &want));
    let rt = match sdk(|| roundtrip(message, &bytes)) {
        Err(p) => return l.violation(&format!("dynamic/{short}/panic"), || json!(case), p),
        Ok(None) => panic!("ENGINE: no dispatch entry for {message}"),
        Ok(Some(r)) => r,
    };
    let (dbg, re, again) = match rt {
        Err(e) => {
            return l.violation(
                &format!("dynamic/{short}/schema-conforming-bytes-rejected"),
                || json!(case),
                format!("prost failed to decode bytes produced from the schema ({encoding}): {e}; bytes = {bytes:02x?}"),
            )
        }
        Ok(x) => x,
    };
    if !again {
        l.violation(&format!("dynamic/{short}/decode-encode-not-identity"), || json!(case), "decode(encode(m)) != m".into());
    }
    // what prost wrote, read back through the schema
    match decode(schema, message, &re) {
        Err(e) => l.violation(&format!("dynamic/{short}/encoding-not-schema-conforming"), || json!(case), format!("bytes written by prost do not follow the schema: {e}; bytes = {re:02x?}")),
        Ok(got) => {
            let got = canon(schema, message, &got);
            if got != want {
                l.violation(
                    &format!("dynamic/{short}/content-changed"),
                    || json!(case),
                    format!("content after decode+encode by prost: {got:?}; content sent: {want:?}"),
                );
            }
        }
    }
    // binding of wire fields to Rust field names, through the Debug rendering
    let default_dbg = match roundtrip(message, &[]) {
        Some(Ok(x)) => x.0,
        _ => return,
    };
    let (d0, d1) = (debug_fields(&default_dbg), debug_fields(&dbg));
    let changed: BTreeSet<String> = d1.iter().filter(|(k, v)| d0.get(*k) != Some(*v)).map(|(k, _)| k.clone()).collect();
    let def = &schema.messages[message.as_str()];
    let names = schema.rust_names.get(message.as_str());
    let mut expect: BTreeSet<String> = BTreeSet::new();
    for (num, vs) in &want {
        let f = def.fields.iter().find(|f| f.number == *num).unwrap();
        if vs.is_empty() {
            continue;
        }
        if let Some(r) = names.and_then(|n| n.get(&f.name)) {
            expect.insert(r.clone());
        }
    }
    if names.is_some() && changed != expect {
        l.violation(
            &format!("dynamic/{short}/field-binding"),
            || json!(case),
            format!("wire fields {:?} were sent; the Rust fields that changed are {changed:?}, expected {expect:?} (Debug: {})", want.keys().collect::<Vec<_>>(), truncate(&dbg, 600)),
        );
    }
    // enum values render as the schema's value names
    for (num, vs) in &want {
        let f = def.fields.iter().find(|f| f.number == *num).unwrap();
        if let (Some(e), "singular", Some(Val::I(v))) = (f.ty.strip_prefix("enum:"), f.label.as_str(), vs.first()) {
            if let Some((vname, _)) = schema.enums[e].iter().find(|(_, n)| **n == *v) {
                let expect_ident = upper_camel_of_value(e, vname);
                let rust_field = names.and_then(|n| n.get(&f.name)).cloned().unwrap_or_default();
                if let Some(text) = d1.get(&rust_field) {
                    if *text != expect_ident {
                        l.violation(
                            &format!("dynamic/{short}/enum-value-name"),
                            || json!(case),
                            format!("{}.{} = {v} ({vname}) is rendered by the Rust binding as {text}, expected {expect_ident}", short, f.name),
                        );
                    }
                }
            }
        }
    }
}

pub fn check_case(l: &mut Local, case: &Case) {
    match case {
        Case::Static { binding, message, detail } => {
            // replay: recompute the static comparison and report if the disagreement is still there
            l.evaluations += 1;
            match load_schema() {
                Err(e) => panic!("ENGINE: {e}"),
                Ok((_, diffs, _)) => {
                    for (b, m, d) in diffs {
                        if b == *binding && m == *message {
                            l.violation(&format!("static/{b}/{}", m.trim_start_matches("ommx.v1.")), || json!(case), d);
                        }
                    }
                    let _ = detail;
                }
            }
        }
        Case::State { .. } => {
            let schema = SCHEMA.with(|s| {
                let mut s = s.borrow_mut();
                if s.is_none() {
                    *s = Some(std::sync::Arc::new(load_schema().unwrap_or_else(|e| panic!("ENGINE: {e}")).0));
                }
                s.as_ref().unwrap().clone()
            });
            check_state(l, &schema, case);
        }
        Case::ForeignArchive { kind, annotated, variant } => {
            l.evaluations += 1;
            l.outcome(&("foreign", kind, annotated, variant));
            super::c20::check_foreign_layers(l, case, &[super::c20::LayerRep { kind: *kind, variant: *variant, annotated: *annotated }], "foreign-archive");
        }
        Case::ForeignArchive2 { a, b } => {
            l.evaluations += 1;
            l.outcome(&("foreign2", a, b));
            let ly = |x: &(u8, u8, bool)| super::c20::LayerRep { kind: x.0, variant: x.1, annotated: x.2 };
            super::c20::check_foreign_layers(l, case, &[ly(a), ly(b)], "foreign-archive");
        }
        Case::SdkArchive2 { a, b } => {
            l.evaluations += 1;
            l.outcome(&("sdk2", a, b));
            let ly = |x: &(u8, u8, bool)| super::c20::LayerRep { kind: x.0, variant: x.1, annotated: x.2 };
            let mut inner = Local::new();
            super::c20::check_case(&mut inner, &super::c20::Case::Sequence { layers: vec![ly(a), ly(b)] });
            l.transitions += inner.transitions;
            l.nontrivial += inner.nontrivial;
            for v in inner.violations.into_values() {
                l.violation(&format!("sdk-archive/{}", v.signature), || json!(case), v.detail);
            }
        }
        Case::LegacySampleSet { samples, sense } => {
            l.outcome(&("legacy-sample-set", samples.len(), sense));
            let mut inner = Local::new();
            super::c15::check_case(&mut inner, &super::c15::Case::Best { samples: samples.iter().map(|s| (crate::refmodel::msg::X(s.0), s.1)).collect(), sense: *sense, legacy: true, by_value: false, removed_how: 0, tag4_only: false });
            // and the still older layout that has tag 4 only
            super::c15::check_case(&mut inner, &super::c15::Case::Best { samples: samples.iter().map(|s| (crate::refmodel::msg::X(s.0), s.1)).collect(), sense: *sense, legacy: false, by_value: false, removed_how: 0, tag4_only: true });
            l.evaluations += inner.evaluations;
            l.transitions += inner.transitions;
            l.nontrivial += inner.nontrivial;
            for v in inner.violations.into_values() {
                l.violation(&format!("legacy-sample-set/{}", v.signature), || json!(case), v.detail);
            }
        }
        Case::BytesEntryPoint { format } => {
            l.evaluations += 1;
            l.transitions += 2;
            l.nontrivial += 1;
            l.outcome(&("bytes-entry-point", format));
            let dir = Scratch::new(&format!("c07-bytes-{format}"));
            let r = sdk(|| -> Result<(v1::Instance, Vec<u8>), String> {
                if format == "mps" {
                    use std::io::Write;
                    let text = "NAME T\nROWS\n N OBJ\n L R1\nCOLUMNS\n X OBJ 1 R1 2\n Y OBJ -1 R1 1\nRHS\n RHS R1 4\nBOUNDS\n UP BND X 3\nENDATA\n";
                    let p = dir.path("t.mps.gz");
                    let mut e = flate2::write::GzEncoder::new(Vec::new(), flate2::Compression::default());
                    e.write_all(text.as_bytes()).map_err(|e| e.to_string())?;
                    std::fs::write(&p, e.finish().map_err(|e| e.to_string())?).map_err(|e| e.to_string())?;
                    Ok((ommx::mps::load_file(&p).map_err(|e| format!("{e}"))?, ommx::mps::load_file_bytes(&p).map_err(|e| format!("{e}"))?))
                } else {
                    let text = "T\nLCL\nMinimize\n2\n1\n0.0\n1\n1 1.5\n0.0\n2\n1 1 1.0\n1 2 2.0\n1e20\n-1e20\n0\n4.0\n0\n0.0\n0\n3.0\n0\n0.0\n0\n0.0\n0\n0.0\n0\n0\n0\n";
                    let p = dir.path("t.qplib");
                    std::fs::write(&p, text).map_err(|e| e.to_string())?;
                    Ok((ommx::qplib::load_file(&p).map_err(|e| format!("{e:#}"))?, ommx::qplib::load_file_bytes(&p).map_err(|e| format!("{e:#}"))?))
                }
            });
            match r {
                Err(p) => l.violation("bytes-entry-point/panic", || json!(case), p),
                Ok(Err(e)) => l.violation("bytes-entry-point/error", || json!(case), format!("{format}: {e}")),
                Ok(Ok((inst, bytes))) => match v1::Instance::decode(bytes.as_slice()) {
                    Err(e) => l.violation("bytes-entry-point/not-decodable", || json!(case), format!("{format}::load_file_bytes returned {} bytes that do not decode as ommx.v1.Instance: {e}", bytes.len())),
                    Ok(m) => {
                        let same = m.decision_variables.len() == inst.decision_variables.len()
                            && m.constraints.len() == inst.constraints.len()
                            && m.sense == inst.sense
                            && crate::refmodel::msg::poly_of_opt_function(&m.objective).ok().map(|p| p.0.len()) == crate::refmodel::msg::poly_of_opt_function(&inst.objective).ok().map(|p| p.0.len());
                        if !same || inst.decision_variables.len() != 2 || inst.constraints.len() != 1 {
                            l.violation("bytes-entry-point/content", || json!(case), format!("{format}: load_file_bytes decodes to {} variables / {} constraints, load_file gives {} / {} (the file has 2 / 1)", m.decision_variables.len(), m.constraints.len(), inst.decision_variables.len(), inst.constraints.len()));
                        }
                    }
                },
            }
        }
        Case::LegacyArtifact { path } => {
            l.evaluations += 1;
            l.transitions += 1;
            l.nontrivial += 1;
            let p = std::path::Path::new(path);
            let r = sdk(|| -> Result<Vec<String>, String> {
                let mut a = ommx::artifact::Artifact::from_oci_archive(p).map_err(|e| format!("cannot open: {e:#}"))?;
                let insts = a.get_instances().map_err(|e| format!("cannot read instances: {e:#}"))?;
                if insts.is_empty() {
                    return Err("no instance layer found".into());
                }
                let mut bad = vec![];
                for (desc, inst) in insts {
                    if let Err(e) = inst.validate() {
                        bad.push(format!("instance {} does not validate: {e:#}", desc.digest()));
                    }
                    let re = inst.encode_to_vec();
                    match v1::Instance::decode(re.as_slice()) {
                        Ok(back) if back == inst => {}
                        Ok(_) => bad.push(format!("instance {}: decode(encode(m)) != m", desc.digest())),
                        Err(e) => bad.push(format!("instance {}: re-encoded bytes do not decode: {e}", desc.digest())),
                    }
                    if inst.decision_variables.is_empty() || inst.objective.is_none() {
                        bad.push(format!("instance {} decoded without variables or objective", desc.digest()));
                    }
                }
                Ok(bad)
            });
            l.outcome(path);
            match r {
                Err(pn) => l.violation("legacy-artifact/panic", || json!(case), pn),
                Ok(Err(e)) => l.violation("legacy-artifact/unreadable", || json!(case), format!("{path}: {e}")),
                Ok(Ok(bad)) => {
                    for b in bad {
                        l.violation("legacy-artifact/content", || json!(case), format!("{path}: {b}"));
                    }
                }
            }
        }
    }
}

pub fn run(ctx: &Ctx) -> Finish {
    // the full exploration takes under a second, so both tiers run it
    let t = true;
    let (schema, diffs, summary) = match load_schema() {
        Ok(x) => x,
        Err(e) => panic!("ENGINE: {e}"),
    };
    ctx.note("static_binding", summary);
    // 1. static binding of the model to the three implementations
    ctx.seq(|l| {
        l.evaluations += 3;
        l.transitions += 3;
        l.states += schema.messages.len() as u64;
        for (b, m, d) in &diffs {
            let case = Case::Static { binding: b.clone(), message: m.clone(), detail: d.clone() };
            l.violation(&format!("static/{b}/{}", m.trim_start_matches("ommx.v1.")), || json!(case), d.clone());
        }
    });
    // 2. dynamic conformance: every message type, field-set states
    let uncovered: Vec<String> = schema.messages.keys().filter(|m| !table_names().contains(&m.as_str())).cloned().collect();
    ctx.note("schema_messages_without_dispatch_entry", json!(uncovered));
    let extra: Vec<&str> = table_names().into_iter().filter(|n| !schema.messages.contains_key(*n)).collect();
    ctx.note("dispatch_entries_without_schema_message", json!(extra));
    let encodings = ["packed", "packed+reversed", "unpacked", "packed+unknown", "unpacked+reversed+unknown"];
    let names: Vec<String> = schema.messages.keys().filter(|m| table_names().contains(&m.as_str())).cloned().collect();
    let schema_ref = &schema;
    ctx.par(names.len(), |l, i| {
        let msg = &names[i];
        let def = &schema_ref.messages[msg];
        let sl = slots(def);
        let alts: Vec<Vec<Vec<(u32, Val)>>> = sl.iter().map(|s| slot_alternatives(schema_ref, def, s)).collect();
        let max_size = if t { if sl.len() <= 8 { sl.len() } else { 3 } } else { 2 };
        // every subset of slots up to max_size, every combination of alternatives
        let n = sl.len();
        let mut subsets: Vec<Vec<usize>> = vec![vec![]];
        fn rec(start: usize, n: usize, left: usize, cur: &mut Vec<usize>, out: &mut Vec<Vec<usize>>) {
            if left == 0 {
                return;
            }
            for k in start..n {
                cur.push(k);
                out.push(cur.clone());
                rec(k + 1, n, left - 1, cur, out);
                cur.pop();
            }
        }
        rec(0, n, max_size, &mut vec![], &mut subsets);
        // plus the fully populated message
        for sub in subsets.iter().chain(std::iter::once(&(0..n).collect::<Vec<_>>())) {
            let radix: Vec<usize> = sub.iter().map(|k| alts[*k].len()).collect();
            // for large subsets only the first alternative of each slot and single deviations from it
            let full = sub.len() <= 2;
            let mut combos: Vec<Vec<usize>> = vec![];
            if full {
                odometer(&radix, |d| combos.push(d.to_vec()));
            } else {
                combos.push(vec![0; sub.len()]);
                for (p, r) in radix.iter().enumerate() {
                    for a in 1..*r {
                        let mut c = vec![0; sub.len()];
                        c[p] = a;
                        combos.push(c);
                    }
                }
            }
            if sub.is_empty() {
                combos = vec![vec![]];
            }
            for combo in combos {
                let mut entries: Vec<(u32, Val)> = vec![];
                for (p, k) in sub.iter().enumerate() {
                    entries.extend(alts[*k][combo[p]].clone());
                }
                l.states += 1;
                for enc in encodings {
                    let case = Case::State { message: msg.clone(), value: Val::M(entries.clone()), encoding: enc.to_string() };
                    if enc == "packed" && entries.len() == 2 && ctx.want_sample((i * 100_000 + entries.len()) as u64) && l.samples.len() < 3 {
                        l.samples.push(((i * 100_000) as u64, json!(case)));
                    }
                    check_state(l, schema_ref, &case);
                }
            }
        }
    });
    // 3. artifacts written by earlier releases
    ctx.seq(|l| {
        for p in ["/repo/data/random_lp_instance.ommx", "/repo/python/ommx/random_lp_instance.ommx"] {
            if std::path::Path::new(p).exists() {
                l.states += 1;
                let case = Case::LegacyArtifact { path: p.to_string() };
                l.samples.push((999_999, json!(case)));
                check_case(l, &case);
            } else {
                l.bump("legacy_artifact_files_absent", 1);
            }
        }
    });
    // 4. archives written by another conforming implementation (published media types and annotation keys)
    ctx.seq(|l| {
        for kind in 0..4u8 {
            for annotated in [false, true] {
                for variant in [0u8, 1] {
                    l.states += 1;
                    check_case(l, &Case::ForeignArchive { kind, annotated, variant });
                }
            }
        }
        for format in ["mps", "qplib"] {
            l.states += 1;
            check_case(l, &Case::BytesEntryPoint { format: format.to_string() });
        }
        // two-layer archives: every ordered pair of (kind, variant), the second layer annotated
        for ka in 0u8..4 {
            for va in [0u8, 1] {
                for kb in 0u8..4 {
                    for vb in [0u8, 1] {
                        for (aa, ab) in [(false, true), (true, false)] {
                            l.states += 1;
                            check_case(l, &Case::ForeignArchive2 { a: (ka, va, aa), b: (kb, vb, ab) });
                        }
                        l.states += 1;
                        check_case(l, &Case::SdkArchive2 { a: (ka, va, true), b: (kb, vb, false) });
                    }
                }
            }
        }
        // sample sets in the field layout of earlier releases: all 9^3 three-sample sets, both senses
        let values = [-1.0, 2.0, 5.0];
        for code in 0..729usize {
            let mut c = code;
            let mut samples = vec![];
            for _ in 0..3 {
                samples.push((values[c % 3], ((c % 9) / 3) as u8));
                c /= 9;
            }
            for sense in [1, 2] {
                l.states += 1;
                check_case(l, &Case::LegacySampleSet { samples: samples.clone(), sense });
            }
        }
    });
    ctx.assume("No protobuf runtime for Python is installed: the Python bindings are bound to the schema statically, by decoding the serialized FileDescriptorProto embedded in each *_pb2.py with the harness's own wire decoder and comparing it (and the .pyi stubs' field lists) with the schema model; the generated Python classes are not executed.");
    ctx.assume("Trusted base of the static step: prost's derive honours its attributes - which the dynamic step checks on every message type through an independent codec and the Debug rendering of the decoded struct.");
    Finish {
        level: "model_checking",
        rule: "model = the schema parsed from proto/ (own parser): (1) static binding of every message, field (number, name, type, label, oneof group) and enum value to the prost attributes of ommx.v1.rs, to the descriptors embedded in python/*_pb2.py and to the .pyi stubs; (2) every model state = field-set of every message type (every subset of field slots up to the bound, each alternative value per slot: repeated with 1-2 elements, maps with 1-2 entries, every oneof arm, nested messages populated one level deep and present-but-empty, every declared enum value and an undeclared one, explicit-presence defaults), encoded by the harness's own schema-driven encoder in 5 encodings (packed / unpacked repeated scalars, reversed field order, appended unknown fields of every wire type) -> prost decode -> Rust fields that changed (via Debug) must be exactly the fields sent -> prost encode -> harness decoder must recover the content -> decode(encode(m)) == m; (3) the artifact written by an earlier release must open, decode, validate and re-encode; non-trivial = non-empty field set".into(),
        bounds: json!({"subset_size_max": if t { "all subsets for <= 8 slots, 3 otherwise" } else { "2" }, "encodings": encodings, "nested_depth": 1}),
        exhaustive: true,
    }
}

pub fn replay(l: &mut Local, case: &serde_json::Value) -> Result<(), String> {
    let c: Case = serde_json::from_value(case.clone()).map_err(|e| e.to_string())?;
    check_case(l, &c);
    Ok(())
}

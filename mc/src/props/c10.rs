//! C10 — instantiating parameters equals evaluating them.

use crate::engine::*;
use crate::refmodel::family::*;
use crate::refmodel::msg::*;
use crate::refmodel::poly::*;
use ommx::{v1, Evaluate};
use serde::{Deserialize, Serialize};
use serde_json::json;
use std::collections::{BTreeMap, BTreeSet};

#[derive(Clone, Debug, Serialize, Deserialize)]
pub enum Case {
    WithParameters {
        /// objective / constraints may mention parameter ids
        inst: InstRep,
        declared: Vec<u64>,
        given: Vec<(u64, f64)>,
        state: Vec<(u64, f64)>,
    },
    RoundTrip { inst: InstRep },
}

fn mk_parametric(inst: &InstRep, declared: &[u64]) -> v1::ParametricInstance {
    let m = inst.to_msg();
    let mut p = v1::ParametricInstance::from(m);
    // the parameter list is a set: the three-parameter declaration is listed in descending id order
    let order: Vec<u64> = if declared.len() >= 3 { declared.iter().rev().cloned().collect() } else { declared.to_vec() };
    p.parameters = order
        .iter()
        .map(|id| {
            let mut x = v1::Parameter::default();
            x.id = *id;
            // metadata is optional: parameter 11 has none at all, 10 has all of it
            if *id != 11 {
                x.name = Some(format!("p{id}"));
            }
            if *id == 10 {
                x.subscripts = vec![3, -1];
                x.description = Some("weight".into());
                x.parameters = [("k".to_string(), "v".to_string())].into_iter().collect();
            }
            x
        })
        .collect();
    p
}

pub fn check_case(l: &mut Local, case: &Case) {
    l.evaluations += 1;
    l.transitions += 1;
    match case {
        Case::WithParameters { inst, declared, given, state } => {
            let pi = mk_parametric(inst, declared);
            let mut ps = v1::Parameters::default();
            ps.entries = given.iter().cloned().collect();
            let given_ids: BTreeSet<u64> = given.iter().map(|g| g.0).collect();
            let missing: Vec<u64> = declared.iter().filter(|d| !given_ids.contains(d)).cloned().collect();
            let r = sdk(|| pi.clone().with_parameters(ps.clone()).map_err(|e| format!("{e:#}")));
            let r = match r {
                Err(p) => return l.violation("with_parameters/panic", || json!(case), p),
                Ok(r) => r,
            };
            if !missing.is_empty() {
                l.outcome(&("missing", missing.len()));
                l.nontrivial += 1;
                if r.is_ok() {
                    l.violation(
                        "with_parameters/missing-parameter-accepted",
                        || json!(case),
                        format!("declared parameters {declared:?}, given {given_ids:?}: missing {missing:?} but with_parameters succeeded"),
                    );
                }
                return;
            }
            let out = match r {
                Err(e) => return l.violation("with_parameters/complete-assignment-rejected", || json!(case), format!("all declared parameters given, but with_parameters failed: {e}")),
                Ok(i) => i,
            };
            let qg = qstate(given);
            let mut want = inst_view_rep(inst);
            want.objective = want.objective.partial(&qg);
            for c in want.constraints.iter_mut() {
                c.poly = c.poly.partial(&qg);
            }
            l.outcome(&(&want.objective, want.constraints.iter().map(|c| c.poly.clone()).collect::<Vec<_>>()));
            if !want.objective.is_zero() {
                l.nontrivial += 1;
            }
            let got = match inst_view(&out) {
                Err(e) => return l.violation("with_parameters/unreadable", || json!(case), e),
                Ok(g) => g,
            };
            if got.objective != want.objective {
                l.violation("with_parameters/objective", || json!(case), format!("objective {} , parametric objective at the given parameters is {}", got.objective.show(), want.objective.show()));
            }
            if got.constraints != want.constraints {
                l.violation("with_parameters/constraints", || json!(case), format!("constraints {:?}, expected {:?}", got.constraints, want.constraints));
            }
            if got.removed != want.removed {
                l.violation("with_parameters/removed-constraints-changed", || json!(case), format!("removed constraints {:?}, expected unchanged {:?}", got.removed, want.removed));
            }
            if got.vars != want.vars {
                l.violation("with_parameters/variables-changed", || json!(case), "decision variables changed".into());
            }
            if got.sense != want.sense {
                l.violation("with_parameters/sense-changed", || json!(case), format!("sense {} -> {}", want.sense, got.sense));
            }
            if got.dependencies != want.dependencies {
                l.violation("with_parameters/dependencies-changed", || json!(case), format!("dependencies {:?} expected {:?}", got.dependencies, want.dependencies));
            }
            let want_hints = inst.to_msg().constraint_hints;
            if out.constraint_hints != want_hints {
                l.violation("with_parameters/hints-changed", || json!(case), format!("hints {:?}, expected {:?}", out.constraint_hints, want_hints));
            }
            let rec: Option<BTreeMap<u64, u64>> = out.parameters.as_ref().map(|p| p.entries.iter().map(|(k, v)| (*k, v.to_bits())).collect());
            let exp: BTreeMap<u64, u64> = given.iter().map(|(k, v)| (*k, v.to_bits())).collect();
            if rec.as_ref() != Some(&exp) {
                l.violation("with_parameters/parameters-not-recorded", || json!(case), format!("recorded parameters {:?}, supplied {:?}", out.parameters.as_ref().map(|p| &p.entries), given));
            }
            // evaluation at x equals the parametric functions at (x, p)
            if !state.is_empty() {
                l.transitions += 1;
                let mut full = qstate(state);
                full.extend(qg.clone());
                let pv = inst_view_rep(inst);
                if let Some(exact) = pv.objective.eval(&full) {
                    match sdk(|| out.evaluate(&mk_state(state)).map_err(|e| format!("{e:#}"))) {
                        Err(p) => l.violation("with_parameters/evaluate-panic", || json!(case), p),
                        Ok(Err(e)) => l.violation("with_parameters/evaluate-error", || json!(case), e),
                        Ok(Ok((sol, _))) => {
                            if q_opt(sol.objective).as_ref() != Some(&exact) {
                                l.violation("with_parameters/objective-value", || json!(case), format!("objective at x = {} , parametric objective at (x,p) = {}", sol.objective, qs(&exact)));
                            }
                            for c in &pv.constraints {
                                let e = c.poly.eval(&full);
                                let g = sol.evaluated_constraints.iter().find(|x| x.id == c.id).map(|x| x.evaluated_value);
                                if e.is_some() && g.and_then(q_opt) != e {
                                    l.violation("with_parameters/constraint-value", || json!(case), format!("constraint {} value {:?}, parametric constraint at (x,p) = {}", c.id, g, qs(&e.unwrap())));
                                }
                            }
                        }
                    }
                }
            }
        }
        Case::RoundTrip { inst } => {
            let m = inst.to_msg();
            let r = sdk(|| v1::ParametricInstance::from(m.clone()).with_parameters(v1::Parameters::default()).map_err(|e| format!("{e:#}")));
            l.nontrivial += 1;
            match r {
                Err(p) => l.violation("round-trip/panic", || json!(case), p),
                Ok(Err(e)) => l.violation("round-trip/error", || json!(case), format!("Instance -> ParametricInstance -> with_parameters({{}}) failed: {e}")),
                Ok(Ok(back)) => {
                    let (a, b) = (inst_view(&back), inst_view(&m));
                    l.outcome(&b.as_ref().ok().map(|v| v.objective.clone()));
                    if a != b {
                        l.violation("round-trip/problem-changed", || json!(case), format!("round trip gives {a:?}, original {b:?}"));
                    }
                    if back.constraint_hints != m.constraint_hints || back.description != m.description {
                        l.violation("round-trip/hints-or-description-changed", || json!(case), "hints or description changed".into());
                    }
                }
            }
        }
    }
}

fn rename(f: &FnRep, map: &dyn Fn(u64) -> u64) -> FnRep {
    match f {
        FnRep::Unset => FnRep::Unset,
        FnRep::Const(c) => FnRep::Const(*c),
        FnRep::Lin { terms, c } => FnRep::Lin { terms: terms.iter().map(|(i, v)| (map(*i), *v)).collect(), c: *c },
        FnRep::Quad { entries, lin } => FnRep::Quad {
            entries: entries.iter().map(|(r, c, v)| (map(*r), map(*c), *v)).collect(),
            lin: lin.as_ref().map(|(t, c)| (t.iter().map(|(i, v)| (map(*i), *v)).collect(), *c)),
        },
        FnRep::Poly { terms } => FnRep::Poly { terms: terms.iter().map(|(ids, c)| (ids.iter().map(|i| map(*i)).collect(), *c)).collect() },
    }
}

pub fn functions(tier: Tier) -> Vec<FnRep> {
    let t = tier == Tier::Thorough;
    // the C01-style alphabet over ids {1, 2, 7}, renamed so that 7 -> parameter 10 and (second copy) 2 -> parameter 11
    let mut base = vec![FnRep::Unset, FnRep::Const(2.0)];
    base.extend(gen_linear(&IDS3, &[1.0, -0.5, 0.0], &[0.0, 2.0], 2));
    base.extend(gen_quadratic(&IDS3, &[1.0, -0.5], if t { 2 } else { 1 }, &lin_parts_std(), true));
    base.extend(gen_polynomial(&monomials(&IDS3, 3), &[1.0, -0.5], 1));
    let few: Vec<Vec<u64>> = vec![vec![], vec![1], vec![7], vec![2, 1], vec![7, 2], vec![7, 7], vec![7, 1, 7], vec![1, 2, 7], vec![2, 2, 7]];
    base.extend(gen_polynomial(&few, &[1.0, -1.0], 2));
    if t {
        base.extend(gen_polynomial(&few, &[1.0, -0.5], 3));
    }
    // explicit-zero entries / zero-coefficient terms that mention a parameter: after instantiation the
    // function must not mention the parameter any more (it could not be evaluated at x otherwise)
    base.push(FnRep::Quad { entries: vec![(7, 1, 0.0)], lin: Some((vec![], 2.0)) });
    base.push(FnRep::Quad { entries: vec![(1, 7, 0.0), (7, 7, 0.0)], lin: None });
    base.push(FnRep::Poly { terms: vec![(vec![7, 1], 0.0), (vec![], 2.0)] });
    base.push(FnRep::Lin { terms: vec![(7, 0.0)], c: 1.5 });
    let mut out: Vec<FnRep> = base.iter().map(|f| rename(f, &|i| if i == 7 { 10 } else { i })).collect();
    // 4- and 5-term linear functions in every order of the ids (so the term list is longer than
    // the parameter assignment and unsorted), also inside a quadratic's linear part
    for perm in permutations(4) {
        let ids = [1u64, 2, 10, 11];
        let cs = [1.0, -0.5, 2.0, 1.0];
        let terms: Vec<(u64, f64)> = perm.iter().map(|k| (ids[*k], cs[*k])).collect();
        out.push(FnRep::Lin { terms: terms.clone(), c: 0.5 });
        let mut five = terms.clone();
        five.insert(2, (ids[perm[0]], 0.5));
        out.push(FnRep::Lin { terms: five, c: 0.0 });
        out.push(FnRep::Quad { entries: vec![(10, 1, 1.0)], lin: Some((terms, 0.0)) });
    }
    out.extend(base.iter().step_by(3).map(|f| rename(f, &|i| match i { 7 => 10, 2 => 11, x => x })));
    out
}

pub fn run(ctx: &Ctx) -> Finish {
    // the full alphabet takes ~20 s, so both tiers run it
    let t = true;
    let fs = functions(Tier::Thorough);
    ctx.note("functions", json!(fs.len()));
    let declared_sets: Vec<Vec<u64>> = vec![vec![10, 11], vec![10, 11, 12]];
    let con_fs: Vec<FnRep> = fs.iter().step_by((fs.len() / if t { 40 } else { 12 }).max(1)).cloned().collect();
    let removed = RemRep {
        constraint: ConRep::new(40, LE_ZERO, Some(FnRep::Lin { terms: vec![(1, 1.0), (12, 2.0), (10, 1.0)], c: 0.0 })).with_meta("r"),
        reason: "because".into(),
        // metadata as the penalty method leaves it (names a supplied parameter): still to be left alone
        parameters: vec![("parameter_id".into(), "10".into())],
    };
    ctx.par(fs.len(), |l, i| {
        let f = &fs[i];
        l.states += 1;
        for (ci, con_list) in std::iter::once(vec![])
            .chain(con_fs.iter().enumerate().filter(|(k, _)| t || (k + i) % 3 == 0).map(|(k, g)| vec![ConRep::new(3, if k % 2 == 0 { EQ_ZERO } else { LE_ZERO }, Some(g.clone())).with_meta("c")]))
            .chain(std::iter::once(vec![ConRep::new(5, LE_ZERO, Some(f.clone())), ConRep::new(3, EQ_ZERO, None)]))
            // a constraint without function listed BEFORE one that carries parameters
            .chain(std::iter::once(vec![ConRep::new(3, EQ_ZERO, None), ConRep::new(5, LE_ZERO, Some(f.clone()))]))
            .enumerate()
        {
            for with_removed in [false, true] {
                if !t && with_removed && ci % 2 == 1 {
                    continue;
                }
                let mut inst = InstRep {
                    sense: if ci % 2 == 0 { SENSE_MIN } else { SENSE_MAX },
                    objective: if ci == 1 { None } else { Some(f.clone()) },
                    vars: vec![VarRep::new(2, KIND_INTEGER, Some((-2.0, 3.0))), VarRep::new(1, KIND_CONTINUOUS, None)],
                    constraints: con_list.clone(),
                    ..Default::default()
                };
                if with_removed {
                    inst.removed.push(removed.clone());
                    // hints: one-hot only, or (every second instance) an SOS1 hint only
                    if !con_list.is_empty() {
                        if (i + ci) % 2 == 0 {
                            inst.one_hot.push((con_list[0].id, vec![1, 2]));
                        } else {
                            inst.sos1.push((con_list[0].id, vec![con_list[0].id], vec![2, 1]));
                        }
                    }
                    inst.description_name = Some("parametric".into());
                }
                for declared in &declared_sets {
                    let mut assignments: Vec<Vec<(u64, f64)>> = vec![];
                    let complete: Vec<(u64, f64)> = declared.iter().enumerate().map(|(k, id)| (*id, [2.0, -0.5, 1.0][k % 3])).collect();
                    assignments.push(complete.clone());
                    let mut with_extra = complete.clone();
                    with_extra.push((99, 7.0));
                    assignments.push(with_extra);
                    let mut zeros = complete.clone();
                    zeros[0].1 = 0.0;
                    assignments.push(zeros);
                    for miss in declared {
                        assignments.push(complete.iter().filter(|(k, _)| k != miss).cloned().collect());
                        // one declared parameter missing AND an unrelated extra id supplied
                        let mut v: Vec<(u64, f64)> = complete.iter().filter(|(k, _)| k != miss).cloned().collect();
                        v.push((99, 7.0));
                        assignments.push(v);
                    }
                    assignments.push(vec![]);
                    assignments.push(vec![(99, 1.0)]);
                    for (ai, given) in assignments.into_iter().enumerate() {
                        let case = Case::WithParameters {
                            inst: inst.clone(),
                            declared: declared.clone(),
                            given,
                            state: if ai < 2 && !with_removed { vec![(1, 0.5), (2, -1.0)] } else { vec![] },
                        };
                        if ai == 0 && ci == 2 && ctx.want_sample(i as u64) {
                            l.samples.push((i as u64, json!(case)));
                        }
                        check_case(l, &case);
                    }
                }
            }
        }
    });
    // Instance -> ParametricInstance -> with_parameters({}) round trip on decision-only instances
    let plain: Vec<FnRep> = super::c01::functions(Tier::Quick).into_iter().filter(|f| f.n_terms() <= 2).step_by(if t { 1 } else { 4 }).collect();
    ctx.par(plain.len(), |l, i| {
        let inst = InstRep {
            sense: SENSE_MAX,
            objective: Some(plain[i].clone()),
            vars: vec![VarRep::new(1, KIND_CONTINUOUS, None), VarRep::new(2, KIND_BINARY, None), VarRep::new(7, KIND_INTEGER, Some((0.0, 5.0)))],
            constraints: vec![ConRep::new(3, LE_ZERO, Some(plain[(i * 7 + 3) % plain.len()].clone())).with_meta("k")],
            removed: vec![RemRep { constraint: ConRep::new(4, EQ_ZERO, Some(plain[(i * 5 + 1) % plain.len()].clone())), reason: "r".into(), parameters: vec![] }],
            dependencies: if i % 2 == 0 { vec![(7, FnRep::Lin { terms: vec![(1, 1.0)], c: 0.0 })] } else { vec![] },
            one_hot: if i % 3 == 0 { vec![(3, vec![1, 2])] } else { vec![] },
            description_name: if i % 2 == 1 { Some("d".into()) } else { None },
            parameters: if i % 5 == 0 { Some(vec![(50, 1.0)]) } else { None },
            ..Default::default()
        };
        // every fifth instance records the parameter values of an earlier instantiation (id 50, not a
        // variable): the conversion drops them (documented), so the round trip still needs no parameter
        check_case(l, &Case::RoundTrip { inst });
    });
    Finish {
        level: "model_checking",
        rule: "parametric instances whose objective and constraints range over the representation alphabet with decision ids {1,2} and parameter ids {10,11} (declared sets {10,11} and {10,11,12}: a declared parameter may be unused or occur only in a removed constraint) x parameter assignments {complete, complete + unrelated extra, with a zero, each single declared parameter missing (alone and together with an unrelated extra id), empty, only an unrelated id} through the real with_parameters; oracle: exact partial evaluation of objective and active constraints, everything else unchanged, parameters recorded, Err iff a declared parameter is missing; evaluation at x compared with the parametric functions at (x,p); Instance->ParametricInstance->with_parameters({}) round trip".into(),
        bounds: json!({"decision_ids": [1,2], "parameter_ids": [10,11,12], "function_terms_max": 3, "degree_max": 3}),
        exhaustive: t,
    }
}

pub fn replay(l: &mut Local, case: &serde_json::Value) -> Result<(), String> {
    let c: Case = serde_json::from_value(case.clone()).map_err(|e| e.to_string())?;
    check_case(l, &c);
    Ok(())
}

//! C08 — validation accepts exactly the well-formed instances; the typed view keeps the content.

use crate::engine::*;
use crate::refmodel::msg::*;
use crate::refmodel::poly::*;
use ommx::v1;
use serde::{Deserialize, Serialize};
use serde_json::json;
use std::collections::{BTreeMap, BTreeSet};

#[derive(Clone, Debug, Serialize, Deserialize)]
pub enum Case {
    /// base instance `base`, with the faults of the given indices (into the base's fault catalogue) applied in order
    Faults { base: usize, faults: Vec<usize>, names: Vec<String> },
    /// a valid instance from another property's family
    Valid { inst: InstRep },
    Parametric { base: usize, faults: Vec<usize>, names: Vec<String> },
}

const UNDEF: u64 = 999;

// ------------------------------------------------------------------------------------------
// bases
// ------------------------------------------------------------------------------------------

pub fn bases() -> Vec<InstRep> {
    let inf = f64::INFINITY;
    let lin = |t: Vec<(u64, f64)>, c: f64| FnRep::Lin { terms: t, c };
    let mut v = vec![];
    // B0: every kind, bounds present/absent, every function variant, active + removed, hints, dependency, parameters, description
    let mut vars = vec![
        VarRep::new(1, KIND_BINARY, None),
        VarRep::new(2, KIND_INTEGER, Some((-2.0, 3.0))),
        VarRep::new(7, KIND_CONTINUOUS, None),
        VarRep::new(4, 4, Some((0.0, 5.0))),
        VarRep::new(5, 5, Some((-inf, inf))),
        VarRep::new(9, KIND_CONTINUOUS, Some((1.0, inf))),
    ];
    vars[1].name = Some("y".into());
    vars[1].subscripts = vec![1, 2];
    vars[1].parameters = vec![("a".into(), "b".into())];
    vars[1].description = Some("int var".into());
    vars[2].substituted = Some(0.5);
    v.push(InstRep {
        sense: SENSE_MAX,
        objective: Some(FnRep::Poly { terms: vec![(vec![1, 2, 2], 1.0), (vec![5], -1.0), (vec![], 2.0)] }),
        vars: vars.clone(),
        constraints: vec![
            ConRep::new(3, EQ_ZERO, Some(lin(vec![(1, 1.0), (4, 1.0)], -1.0))).with_meta("c3"),
            ConRep::new(40, LE_ZERO, Some(FnRep::Quad { entries: vec![(2, 1, 1.0), (5, 5, 2.0)], lin: Some((vec![(4, -1.0)], 0.0)) })),
            ConRep::new(6, LE_ZERO, Some(FnRep::Const(-1.0))),
        ],
        removed: vec![
            RemRep { constraint: ConRep::new(5, LE_ZERO, Some(lin(vec![(2, 1.0)], 0.0))).with_meta("r5"), reason: "why".into(), parameters: vec![("k".into(), "v".into())] },
            RemRep { constraint: ConRep::new(8, EQ_ZERO, Some(FnRep::Poly { terms: vec![(vec![4, 1], 1.0)] })), reason: "other".into(), parameters: vec![] },
        ],
        dependencies: vec![(9, lin(vec![(1, 1.0), (2, 2.0)], 1.0))],
        one_hot: vec![(3, vec![1, 4])],
        sos1: vec![(3, vec![40, 6], vec![1, 2, 4]), (3, vec![6], vec![4, 1])],
        description_name: Some("base0".into()),
        parameters: Some(vec![(100, 1.5)]),
        ..Default::default()
    });
    // B1: minimal
    v.push(InstRep {
        sense: SENSE_MIN,
        objective: Some(FnRep::Const(0.0)),
        vars: vec![VarRep::new(0, KIND_CONTINUOUS, Some((0.0, 0.0)))],
        ..Default::default()
    });
    // B2: variable ids overlapping constraint ids, linear everywhere, removed only
    v.push(InstRep {
        sense: SENSE_MIN,
        objective: Some(lin(vec![(3, 1.0), (5, -1.0)], 0.0)),
        vars: vec![VarRep::new(5, KIND_INTEGER, None), VarRep::new(3, KIND_BINARY, Some((0.0, 1.0)))],
        removed: vec![RemRep { constraint: ConRep::new(3, LE_ZERO, Some(lin(vec![(5, 1.0)], -2.0))), reason: "r".into(), parameters: vec![] }],
        hints_present: true,
        ..Default::default()
    });
    // B3: quadratic objective without linear part, two dependencies, several one-hot hints
    v.push(InstRep {
        sense: SENSE_MAX,
        objective: Some(FnRep::Quad { entries: vec![(1, 2, 1.0), (2, 1, -0.5)], lin: None }),
        vars: vec![VarRep::new(1, KIND_BINARY, None), VarRep::new(2, KIND_BINARY, None), VarRep::new(3, KIND_CONTINUOUS, None), VarRep::new(4, KIND_CONTINUOUS, None)],
        constraints: vec![
            ConRep::new(1, EQ_ZERO, Some(lin(vec![(1, 1.0), (2, 1.0)], -1.0))),
            ConRep::new(2, EQ_ZERO, Some(lin(vec![(2, 1.0)], 0.0))),
            // a dependent variable (3) may still occur in an active constraint: that is well-formed
            ConRep::new(5, LE_ZERO, Some(lin(vec![(3, 1.0), (1, -1.0)], 0.0))),
        ],
        dependencies: vec![(3, lin(vec![(1, 1.0)], 0.0)), (4, FnRep::Quad { entries: vec![(1, 2, 1.0)], lin: None })],
        // hints listed out of constraint-id order, two of them on the same constraint: all are content
        one_hot: vec![(2, vec![2]), (1, vec![1, 2]), (2, vec![1])],
        ..Default::default()
    });
    // B4: ids that occur only in explicit-zero entries / zero-coefficient terms still have to be defined
    v.push(InstRep {
        sense: SENSE_MIN,
        objective: Some(FnRep::Quad { entries: vec![(1, 2, 0.0), (3, 3, 0.0)], lin: Some((vec![], 1.0)) }),
        vars: vec![VarRep::new(3, KIND_CONTINUOUS, None), VarRep::new(1, KIND_INTEGER, Some((0.0, 4.0))), VarRep::new(2, KIND_BINARY, None)],
        constraints: vec![
            ConRep::new(10, LE_ZERO, Some(lin(vec![(1, 0.0), (2, 1.0)], -1.0))),
            ConRep::new(11, EQ_ZERO, Some(FnRep::Poly { terms: vec![(vec![3, 1], 0.0), (vec![], 0.0)] })),
        ],
        removed: vec![RemRep { constraint: ConRep::new(12, LE_ZERO, Some(FnRep::Quad { entries: vec![(2, 2, 0.0)], lin: None })), reason: "r".into(), parameters: vec![] }],
        ..Default::default()
    });
    // B5: nothing uses a variable (constant objective and constraint) - the id rules still apply
    v.push(InstRep {
        sense: SENSE_MIN,
        objective: Some(FnRep::Const(1.0)),
        vars: vec![VarRep::new(4, KIND_CONTINUOUS, None), VarRep::new(2, KIND_BINARY, None), VarRep::new(9, KIND_INTEGER, Some((0.0, 3.0)))],
        constraints: vec![ConRep::new(1, LE_ZERO, Some(FnRep::Const(-1.0)))],
        ..Default::default()
    });
    v
}

// ------------------------------------------------------------------------------------------
// reference validator (reads the message through its public fields only)
// ------------------------------------------------------------------------------------------

fn fn_supported(f: &v1::Function) -> bool {
    f.function.is_some()
}

fn bound_invalid(b: &v1::Bound) -> bool {
    b.lower.is_nan() || b.upper.is_nan() || b.lower == f64::INFINITY || b.upper == f64::NEG_INFINITY || b.lower > b.upper
}

/// (rules violated for the typed conversion as (error variant, outermost field), does validate() have to reject?)
pub fn reference_rules(m: &v1::Instance) -> (BTreeSet<(String, String)>, bool) {
    let mut v: BTreeSet<(String, String)> = BTreeSet::new();
    let mut add = |a: &str, b: &str| {
        v.insert((a.to_string(), b.to_string()));
    };
    let mut validate_rejects = false;
    if m.sense != SENSE_MIN && m.sense != SENSE_MAX {
        add("UnspecifiedEnum", "sense");
    }
    let mut defined = BTreeSet::new();
    for d in &m.decision_variables {
        if !(1..=5).contains(&d.kind) {
            add("UnspecifiedEnum#kind", "decision_variables");
        }
        if d.bound.as_ref().is_some_and(bound_invalid) {
            add("InvalidBound#bound", "decision_variables");
        }
        if !defined.insert(d.id) {
            add("DuplicatedVariableID", "decision_variables");
            validate_rejects = true;
        }
    }
    let mut check_fn = |f: &Option<v1::Function>, field: &str, missing: &str, counts_for_validate: bool, v: &mut BTreeSet<(String, String)>, vr: &mut bool| match f {
        None => {
            v.insert((format!("MissingField:{missing}"), field.to_string()));
        }
        Some(f) => {
            if !fn_supported(f) {
                // inside a constraint the innermost frame names the `function` field
                let inner = if field == "constraints" || field == "removed_constraints" { "#function" } else { "" };
                v.insert((format!("UnsupportedV1Function{inner}"), field.to_string()));
            }
            if !ids_of_function(f).is_subset(&defined) {
                v.insert(("UndefinedVariableID".to_string(), field.to_string()));
                if counts_for_validate {
                    *vr = true;
                }
            }
        }
    };
    let mut vr = false;
    let mut vv: BTreeSet<(String, String)> = BTreeSet::new();
    // objective: an absent objective is reported without context by MissingField itself
    match &m.objective {
        None => {
            vv.insert(("MissingField:objective".to_string(), "objective".to_string()));
        }
        some => check_fn(some, "objective", "objective", true, &mut vv, &mut vr),
    }
    let mut cids = BTreeSet::new();
    for c in &m.constraints {
        if c.equality != EQ_ZERO && c.equality != LE_ZERO {
            vv.insert(("UnspecifiedEnum#equality".to_string(), "constraints".to_string()));
        }
        check_fn(&c.function, "constraints", "function", true, &mut vv, &mut vr);
        if !cids.insert(c.id) {
            vv.insert(("DuplicatedConstraintID".to_string(), "constraints".to_string()));
            vr = true;
        }
    }
    let active_ids = cids.clone();
    for r in &m.removed_constraints {
        match &r.constraint {
            None => {
                vv.insert(("MissingField:constraint".to_string(), "removed_constraints".to_string()));
            }
            Some(c) => {
                if c.equality != EQ_ZERO && c.equality != LE_ZERO {
                    vv.insert(("UnspecifiedEnum#equality".to_string(), "removed_constraints".to_string()));
                }
                check_fn(&c.function, "removed_constraints", "function", true, &mut vv, &mut vr);
                if !cids.insert(c.id) {
                    vv.insert(("DuplicatedConstraintID".to_string(), "removed_constraints".to_string()));
                    vr = true;
                }
            }
        }
    }
    for (k, f) in &m.decision_variable_dependency {
        if !defined.contains(k) {
            vv.insert(("UndefinedVariableID".to_string(), "decision_variable_dependency".to_string()));
        }
        check_fn(&Some(f.clone()), "decision_variable_dependency", "function", false, &mut vv, &mut vr);
    }
    if let Some(h) = &m.constraint_hints {
        for o in &h.one_hot_constraints {
            if !active_ids.contains(&o.constraint_id) {
                vv.insert(("UndefinedConstraintID#constraint_id".to_string(), "constraint_hints".to_string()));
            }
            let mut seen = BTreeSet::new();
            for x in &o.decision_variables {
                if !defined.contains(x) {
                    vv.insert(("UndefinedVariableID#decision_variables".to_string(), "constraint_hints".to_string()));
                }
                if !seen.insert(*x) {
                    vv.insert(("NonUniqueVariableID#decision_variables".to_string(), "constraint_hints".to_string()));
                }
            }
        }
        for s in &h.sos1_constraints {
            if !active_ids.contains(&s.binary_constraint_id) {
                vv.insert(("UndefinedConstraintID#binary_constraint_id".to_string(), "constraint_hints".to_string()));
            }
            let mut seen = BTreeSet::new();
            for x in &s.big_m_constraint_ids {
                if !active_ids.contains(x) {
                    vv.insert(("UndefinedConstraintID#big_m_constraint_ids".to_string(), "constraint_hints".to_string()));
                }
                if !seen.insert(*x) {
                    vv.insert(("NonUniqueConstraintID#big_m_constraint_ids".to_string(), "constraint_hints".to_string()));
                }
            }
            let mut seen = BTreeSet::new();
            for x in &s.decision_variables {
                if !defined.contains(x) {
                    vv.insert(("UndefinedVariableID#decision_variables".to_string(), "constraint_hints".to_string()));
                }
                if !seen.insert(*x) {
                    vv.insert(("NonUniqueVariableID#decision_variables".to_string(), "constraint_hints".to_string()));
                }
            }
        }
    }
    v.extend(vv);
    (v, validate_rejects || vr)
}

// ------------------------------------------------------------------------------------------
// fault catalogue
// ------------------------------------------------------------------------------------------

pub struct Fault {
    pub name: String,
    pub apply: Box<dyn Fn(&mut v1::Instance) + Send + Sync>,
}

fn id_slots(f: &mut v1::Function) -> Vec<&mut u64> {
    use v1::function::Function as FE;
    let mut out: Vec<&mut u64> = vec![];
    match f.function.as_mut() {
        Some(FE::Linear(l)) => out.extend(l.terms.iter_mut().map(|t| &mut t.id)),
        Some(FE::Quadratic(qd)) => {
            out.extend(qd.rows.iter_mut());
            out.extend(qd.columns.iter_mut());
            if let Some(l) = qd.linear.as_mut() {
                out.extend(l.terms.iter_mut().map(|t| &mut t.id));
            }
        }
        Some(FE::Polynomial(p)) => {
            for m in p.terms.iter_mut() {
                out.extend(m.ids.iter_mut());
            }
        }
        _ => {}
    }
    out
}

#[derive(Clone, Copy)]
enum FnSel {
    Objective,
    Constraint(usize),
    Removed(usize),
    Dependency(u64),
}

fn select<'a>(m: &'a mut v1::Instance, s: FnSel) -> Option<&'a mut v1::Function> {
    match s {
        FnSel::Objective => m.objective.as_mut(),
        FnSel::Constraint(i) => m.constraints.get_mut(i).and_then(|c| c.function.as_mut()),
        FnSel::Removed(i) => m.removed_constraints.get_mut(i).and_then(|r| r.constraint.as_mut()).and_then(|c| c.function.as_mut()),
        FnSel::Dependency(k) => m.decision_variable_dependency.get_mut(&k),
    }
}

pub fn catalogue(base: &v1::Instance) -> Vec<Fault> {
    let mut out: Vec<Fault> = vec![];
    let mut push = |name: String, f: Box<dyn Fn(&mut v1::Instance) + Send + Sync>| out.push(Fault { name, apply: f });
    let nv = base.decision_variables.len();
    // duplicate ids
    for i in 0..nv {
        for j in 0..nv {
            if i != j {
                push(format!("var[{j}].id:=var[{i}].id"), Box::new(move |m| m.decision_variables[j].id = m.decision_variables[i].id));
            }
        }
    }
    let na = base.constraints.len();
    let nr = base.removed_constraints.len();
    let get_cid = move |m: &v1::Instance, p: usize| -> u64 {
        if p < na {
            m.constraints[p].id
        } else {
            m.removed_constraints[p - na].constraint.as_ref().map_or(0, |c| c.id)
        }
    };
    for i in 0..na + nr {
        for j in 0..na + nr {
            if i != j {
                push(
                    format!("constraint[{j}].id:=constraint[{i}].id"),
                    Box::new(move |m| {
                        let id = get_cid(m, i);
                        if j < na {
                            m.constraints[j].id = id;
                        } else if let Some(c) = m.removed_constraints[j - na].constraint.as_mut() {
                            c.id = id;
                        }
                    }),
                );
            }
        }
    }
    // undefined id at each position of each function
    let mut sels: Vec<(String, FnSel)> = vec![("objective".into(), FnSel::Objective)];
    for i in 0..na {
        sels.push((format!("constraints[{i}]"), FnSel::Constraint(i)));
    }
    for i in 0..nr {
        sels.push((format!("removed[{i}]"), FnSel::Removed(i)));
    }
    let mut dep_keys: Vec<u64> = base.decision_variable_dependency.keys().cloned().collect();
    dep_keys.sort();
    for k in &dep_keys {
        sels.push((format!("dependency[{k}]"), FnSel::Dependency(*k)));
    }
    let mut probe = base.clone();
    for (name, sel) in &sels {
        let n = select(&mut probe, *sel).map_or(0, |f| id_slots(f).len());
        let sel = *sel;
        for p in 0..n {
            push(
                format!("{name}.id[{p}]:=undefined"),
                Box::new(move |m| {
                    if let Some(f) = select(m, sel) {
                        if let Some(slot) = id_slots(f).into_iter().nth(p) {
                            *slot = UNDEF;
                        }
                    }
                }),
            );
        }
        push(format!("{name}.oneof:=unset"), Box::new(move |m| if let Some(f) = select(m, sel) { f.function = None }));
    }
    // required fields
    push("sense:=unspecified".into(), Box::new(|m| m.sense = 0));
    push("sense:=7".into(), Box::new(|m| m.sense = 7));
    push("objective:=absent".into(), Box::new(|m| m.objective = None));
    for i in 0..na {
        push(format!("constraints[{i}].function:=absent"), Box::new(move |m| m.constraints[i].function = None));
        push(format!("constraints[{i}].equality:=unspecified"), Box::new(move |m| m.constraints[i].equality = 0));
    }
    for i in 0..nr {
        push(format!("removed[{i}].constraint:=absent"), Box::new(move |m| m.removed_constraints[i].constraint = None));
        push(format!("removed[{i}].function:=absent"), Box::new(move |m| if let Some(c) = m.removed_constraints[i].constraint.as_mut() { c.function = None }));
        push(format!("removed[{i}].equality:=unspecified"), Box::new(move |m| if let Some(c) = m.removed_constraints[i].constraint.as_mut() { c.equality = 0 }));
    }
    for i in 0..nv {
        push(format!("var[{i}].kind:=unspecified"), Box::new(move |m| m.decision_variables[i].kind = 0));
        let shapes: [(&str, f64, f64); 5] = [
            ("nan-lower", f64::NAN, 1.0),
            ("nan-upper", 0.0, f64::NAN),
            ("lower+inf", f64::INFINITY, f64::INFINITY),
            ("upper-inf", f64::NEG_INFINITY, f64::NEG_INFINITY),
            ("lower>upper", 2.0, 1.0),
        ];
        for (tag, lo, up) in shapes {
            push(
                format!("var[{i}].bound:={tag}"),
                Box::new(move |m| {
                    let mut b = v1::Bound::default();
                    b.lower = lo;
                    b.upper = up;
                    m.decision_variables[i].bound = Some(b);
                }),
            );
        }
    }
    // hints
    if let Some(h) = &base.constraint_hints {
        for k in 0..h.one_hot_constraints.len() {
            push(format!("one_hot[{k}].constraint_id:=undefined"), Box::new(move |m| m.constraint_hints.as_mut().unwrap().one_hot_constraints[k].constraint_id = UNDEF));
            for p in 0..h.one_hot_constraints[k].decision_variables.len() {
                push(format!("one_hot[{k}].var[{p}]:=undefined"), Box::new(move |m| m.constraint_hints.as_mut().unwrap().one_hot_constraints[k].decision_variables[p] = UNDEF));
                push(
                    format!("one_hot[{k}].var[{p}] repeated"),
                    Box::new(move |m| {
                        let o = &mut m.constraint_hints.as_mut().unwrap().one_hot_constraints[k];
                        let x = o.decision_variables[p];
                        o.decision_variables.push(x);
                    }),
                );
            }
        }
        for k in 0..h.sos1_constraints.len() {
            push(format!("sos1[{k}].binary_constraint_id:=undefined"), Box::new(move |m| m.constraint_hints.as_mut().unwrap().sos1_constraints[k].binary_constraint_id = UNDEF));
            for p in 0..h.sos1_constraints[k].big_m_constraint_ids.len() {
                push(format!("sos1[{k}].big_m[{p}]:=undefined"), Box::new(move |m| m.constraint_hints.as_mut().unwrap().sos1_constraints[k].big_m_constraint_ids[p] = UNDEF));
                push(
                    format!("sos1[{k}].big_m[{p}] repeated"),
                    Box::new(move |m| {
                        let s = &mut m.constraint_hints.as_mut().unwrap().sos1_constraints[k];
                        let x = s.big_m_constraint_ids[p];
                        s.big_m_constraint_ids.insert(0, x);
                    }),
                );
            }
            for p in 0..h.sos1_constraints[k].decision_variables.len() {
                push(format!("sos1[{k}].var[{p}]:=undefined"), Box::new(move |m| m.constraint_hints.as_mut().unwrap().sos1_constraints[k].decision_variables[p] = UNDEF));
                push(
                    format!("sos1[{k}].var[{p}] repeated"),
                    Box::new(move |m| {
                        let s = &mut m.constraint_hints.as_mut().unwrap().sos1_constraints[k];
                        let x = s.decision_variables[p];
                        s.decision_variables.push(x);
                    }),
                );
            }
        }
    }
    // add a hint that names an undefined constraint (also on bases without hints or without active constraints)
    let first_var = base.decision_variables.first().map_or(0, |v| v.id);
    push(
        "one_hot += {constraint undefined}".into(),
        Box::new(move |m| {
            let h = m.constraint_hints.get_or_insert_with(Default::default);
            let mut o = v1::OneHot::default();
            o.constraint_id = UNDEF;
            o.decision_variables = vec![first_var];
            h.one_hot_constraints.push(o);
        }),
    );
    push(
        "sos1 += {binary constraint undefined}".into(),
        Box::new(move |m| {
            let h = m.constraint_hints.get_or_insert_with(Default::default);
            let mut x = v1::Sos1::default();
            x.binary_constraint_id = UNDEF;
            x.decision_variables = vec![first_var];
            h.sos1_constraints.push(x);
        }),
    );
    for k in dep_keys {
        push(
            format!("dependency key {k}:=undefined"),
            Box::new(move |m| {
                if let Some(f) = m.decision_variable_dependency.remove(&k) {
                    m.decision_variable_dependency.insert(UNDEF, f);
                }
            }),
        );
    }
    // neutral mutations: the message stays well-formed
    for i in 0..nv {
        push(format!("var[{i}].bound:=absent (neutral)"), Box::new(move |m| m.decision_variables[i].bound = None));
    }
    push("hints:=absent (neutral)".into(), Box::new(|m| m.constraint_hints = None));
    push(
        "all active constraints relaxed".into(),
        Box::new(|m| {
            for c in std::mem::take(&mut m.constraints) {
                let mut r = v1::RemovedConstraint::default();
                r.constraint = Some(c);
                r.removed_reason = "relaxed".into();
                m.removed_constraints.push(r);
            }
        }),
    );
    push("description:=absent (neutral)".into(), Box::new(|m| m.description = None));
    out
}

fn variant_of(e: &ommx::parse::RawParseError) -> String {
    use ommx::parse::RawParseError as R;
    match e {
        R::UnsupportedV1Function => "UnsupportedV1Function".into(),
        R::MissingField { field, .. } => format!("MissingField:{field}"),
        R::UnspecifiedEnum { .. } => "UnspecifiedEnum".into(),
        R::DuplicatedVariableID { .. } => "DuplicatedVariableID".into(),
        R::DuplicatedConstraintID { .. } => "DuplicatedConstraintID".into(),
        R::UndefinedVariableID { .. } => "UndefinedVariableID".into(),
        R::UndefinedConstraintID { .. } => "UndefinedConstraintID".into(),
        R::NonUniqueVariableID { .. } => "NonUniqueVariableID".into(),
        R::NonUniqueConstraintID { .. } => "NonUniqueConstraintID".into(),
        R::InvalidBound(_) => "InvalidBound".into(),
        R::DecodeError(_) => "DecodeError".into(),
        // a variant the SDK may grow later: the harness must still build and give a verdict
        #[allow(unreachable_patterns)]
        other => format!("Other:{other}").chars().take(40).collect(),
    }
}

fn check_message(l: &mut Local, case: &Case, m: &v1::Instance, tag: &str) {
    let (rules, validate_rejects) = reference_rules(m);
    l.outcome(&(&rules, validate_rejects));
    // --- validate()
    l.transitions += 1;
    match sdk(|| m.validate().map_err(|e| format!("{e:#}"))) {
        Err(p) => l.violation(&format!("{tag}/validate/panic"), || json!(case), p),
        Ok(Ok(())) if validate_rejects => l.violation(
            &format!("{tag}/validate/accepted-ill-formed"),
            || json!(case),
            format!("validate() succeeded although ids are duplicated or undefined (violated typed rules: {rules:?})"),
        ),
        Ok(Err(e)) if !validate_rejects => l.violation(&format!("{tag}/validate/rejected-well-formed"), || json!(case), format!("validate() failed although variable ids are unique, constraint ids are unique and all used ids are defined: {e}")),
        _ => {}
    }
    // --- typed conversion
    l.transitions += 1;
    let r = sdk(|| {
        ommx::Instance::try_from(m.clone()).map_err(|e| {
            let inner = if e.context.len() >= 2 { e.context.first().map(|c| c.field.to_string()) } else { None };
            (variant_of(&e.error), e.context.last().map(|c| c.field.to_string()), inner, format!("{e}"))
        })
    });
    match r {
        Err(p) => l.violation(&format!("{tag}/try_from/panic"), || json!(case), p),
        Ok(Ok(typed)) => {
            if !rules.is_empty() {
                let what: Vec<String> = rules.iter().map(|(a, b)| format!("{}@{b}", a.split('#').next().unwrap())).collect();
                l.violation(
                    &format!("{tag}/try_from/accepted-ill-formed/{}", what[0]),
                    || json!(case),
                    format!("typed conversion succeeded although the message violates {what:?}"),
                );
            } else {
                for (sig, d) in typed_view_diffs(m, &typed) {
                    l.violation(&format!("{tag}/typed-view/{sig}"), || json!(case), d);
                }
            }
        }
        Ok(Err((variant, field, inner, text))) => {
            if rules.is_empty() {
                l.violation(&format!("{tag}/try_from/rejected-well-formed"), || json!(case), format!("typed conversion rejected a well-formed message: {text}"));
            } else {
                // MissingField of the objective names its field itself and carries no context
                // a rule is written "Variant#inner" when the innermost frame of the path must name `inner`
                let matches_rule = |v: &String, f: &String, need_inner: bool| {
                    let (rv, rinner) = match v.split_once('#') {
                        Some((a, b)) => (a, Some(b)),
                        None => (v.as_str(), None),
                    };
                    rv == variant
                        && (field.as_deref() == Some(f.as_str()) || (field.is_none() && variant == format!("MissingField:{f}")))
                        && (!need_inner || rinner.is_none() || inner.as_deref() == rinner)
                };
                if !rules.iter().any(|(v, f)| matches_rule(v, f, false)) {
                    l.violation(
                        &format!("{tag}/try_from/error-does-not-name-the-rule"),
                        || json!(case),
                        format!("error variant {variant} with outermost field {field:?} ({}) ; the message violates {rules:?}", truncate(&text, 300)),
                    );
                } else if !rules.iter().any(|(v, f)| matches_rule(v, f, true)) {
                    l.violation(
                        &format!("{tag}/try_from/path-does-not-reach-the-offending-field"),
                        || json!(case),
                        format!("error variant {variant}, outermost field {field:?}, innermost field {inner:?} ({}) ; expected the path to end at the offending field: {rules:?}", truncate(&text, 300)),
                    );
                }
            }
        }
    }
}

fn typed_view_diffs(m: &v1::Instance, t: &ommx::Instance) -> Vec<(String, String)> {
    let mut out = vec![];
    let p = t.verif_parts();
    let want_sense = if m.sense == SENSE_MAX { ommx::Sense::Maximize } else { ommx::Sense::Minimize };
    if p.sense != want_sense {
        out.push(("sense".into(), format!("typed sense {:?} for message sense {}", p.sense, m.sense)));
    }
    let fpoly = |f: &ommx::Function| -> Result<Poly, String> {
        match f {
            ommx::Function::Constant(c) => q_opt(*c).map(Poly::constant).ok_or("non-finite".to_string()),
            ommx::Function::Linear(x) => poly_of_linear(x),
            ommx::Function::Quadratic(x) => poly_of_quadratic(x),
            ommx::Function::Polynomial(x) => poly_of_polynomial(x),
        }
    };
    if fpoly(p.objective) != poly_of_opt_function(&m.objective) {
        out.push(("objective".into(), "typed objective differs from the message's".into()));
    }
    if p.decision_variables.len() != m.decision_variables.len() {
        out.push(("variables".into(), format!("{} typed variables for {} in the message", p.decision_variables.len(), m.decision_variables.len())));
    }
    for d in &m.decision_variables {
        let Some(tv) = p.decision_variables.get(&ommx::VariableID::from(d.id)) else {
            out.push(("variables".into(), format!("variable {} missing from the typed view", d.id)));
            continue;
        };
        let want_bound = match &d.bound {
            Some(b) => (b.lower, b.upper),
            None if d.kind == KIND_BINARY => (0.0, 1.0),
            None => (f64::NEG_INFINITY, f64::INFINITY),
        };
        if (tv.bound.lower(), tv.bound.upper()) != want_bound {
            out.push((
                if d.bound.is_none() { "bound-of-variable-without-bound".to_string() } else { "bound".to_string() },
                format!("variable {} (kind {}, message bound {:?}): typed bound [{}, {}], expected {want_bound:?}", d.id, d.kind, d.bound.as_ref().map(|b| (b.lower, b.upper)), tv.bound.lower(), tv.bound.upper()),
            ));
        }
        let want_kind = match d.kind {
            1 => ommx::Kind::Binary,
            2 => ommx::Kind::Integer,
            3 => ommx::Kind::Continuous,
            4 => ommx::Kind::SemiInteger,
            _ => ommx::Kind::SemiContinuous,
        };
        let params: std::collections::HashMap<String, String> = d.parameters.clone();
        if *tv.id != d.id || tv.kind != want_kind || tv.substituted_value != d.substituted_value || tv.name != d.name || tv.subscripts != d.subscripts || tv.parameters != params || tv.description != d.description {
            out.push(("variable-fields".into(), format!("variable {}: typed {:?} vs message {:?}", d.id, tv, d)));
        }
    }
    let check_con = |c: &v1::Constraint, tc: &ommx::Constraint, out: &mut Vec<(String, String)>, what: &str| {
        let want_eq = if c.equality == EQ_ZERO { ommx::Equality::EqualToZero } else { ommx::Equality::LessThanOrEqualToZero };
        if *tc.id != c.id || tc.equality != want_eq || fpoly(&tc.function) != poly_of_opt_function(&c.function) || tc.name != c.name || tc.subscripts != c.subscripts || tc.parameters != c.parameters || tc.description != c.description {
            out.push((what.to_string(), format!("constraint {}: typed {:?} vs message {:?}", c.id, tc, c)));
        }
    };
    if p.constraints.len() != m.constraints.len() {
        out.push(("constraints".into(), "number of typed constraints differs".into()));
    }
    for c in &m.constraints {
        match p.constraints.get(&ommx::ConstraintID::from(c.id)) {
            Some(tc) => check_con(c, tc, &mut out, "constraints"),
            None => out.push(("constraints".into(), format!("constraint {} missing from the typed view", c.id))),
        }
    }
    if p.removed_constraints.len() != m.removed_constraints.len() {
        out.push(("removed-constraints".into(), "number of typed removed constraints differs".into()));
    }
    for r in &m.removed_constraints {
        let c = r.constraint.as_ref().unwrap();
        match p.removed_constraints.get(&ommx::ConstraintID::from(c.id)) {
            Some(tr) => {
                check_con(c, &tr.constraint, &mut out, "removed-constraints");
                if tr.removed_reason != r.removed_reason || tr.removed_reason_parameters != r.removed_reason_parameters {
                    out.push(("removed-constraints".into(), format!("removed constraint {}: reason differs", c.id)));
                }
            }
            None => out.push(("removed-constraints".into(), format!("removed constraint {} missing from the typed view", c.id))),
        }
    }
    let want_deps: BTreeMap<u64, Result<Poly, String>> = m.decision_variable_dependency.iter().map(|(k, f)| (*k, poly_of_function(f))).collect();
    let got_deps: BTreeMap<u64, Result<Poly, String>> = p.decision_variable_dependency.iter().map(|(k, f)| (**k, fpoly(f))).collect();
    if want_deps != got_deps {
        out.push(("dependencies".into(), format!("typed dependencies {got_deps:?} vs {want_deps:?}")));
    }
    if p.parameters != &m.parameters || p.description != &m.description {
        out.push(("parameters-or-description".into(), "parameters or description differ".into()));
    }
    let empty = v1::ConstraintHints::default();
    let h = m.constraint_hints.as_ref().unwrap_or(&empty);
    let want_oh: Vec<(u64, BTreeSet<u64>)> = h.one_hot_constraints.iter().map(|o| (o.constraint_id, o.decision_variables.iter().cloned().collect())).collect();
    let got_oh: Vec<(u64, BTreeSet<u64>)> = p.constraint_hints.one_hot_constraints.iter().map(|o| (*o.id, o.variables.iter().map(|v| **v).collect())).collect();
    let want_s: Vec<(u64, BTreeSet<u64>, BTreeSet<u64>)> = h.sos1_constraints.iter().map(|s| (s.binary_constraint_id, s.big_m_constraint_ids.iter().cloned().collect(), s.decision_variables.iter().cloned().collect())).collect();
    let got_s: Vec<(u64, BTreeSet<u64>, BTreeSet<u64>)> = p.constraint_hints.sos1_constraints.iter().map(|s| (*s.binary_constraint_id, s.big_m_constraint_ids.iter().map(|c| **c).collect(), s.variables.iter().map(|v| **v).collect())).collect();
    // the order of the hint lists is not content; every hint is
    let (mut want_oh, mut got_oh, mut want_s, mut got_s) = (want_oh, got_oh, want_s, got_s);
    want_oh.sort();
    got_oh.sort();
    want_s.sort();
    got_s.sort();
    if want_oh != got_oh || want_s != got_s {
        out.push(("hints".into(), format!("typed hints {got_oh:?} {got_s:?} vs {want_oh:?} {want_s:?}")));
    }
    out
}

// ------------------------------------------------------------------------------------------
// parametric instances
// ------------------------------------------------------------------------------------------

fn parametric_base() -> v1::ParametricInstance {
    let lin = |t: Vec<(u64, f64)>, c: f64| FnRep::Lin { terms: t, c };
    let rep = InstRep {
        sense: SENSE_MIN,
        objective: Some(FnRep::Quad { entries: vec![(1, 10, 1.0)], lin: Some((vec![(2, 1.0)], 0.0)) }),
        vars: vec![VarRep::new(1, KIND_CONTINUOUS, None), VarRep::new(2, KIND_BINARY, None)],
        constraints: vec![ConRep::new(3, LE_ZERO, Some(lin(vec![(1, 1.0), (11, -1.0)], 0.0))), ConRep::new(4, EQ_ZERO, Some(lin(vec![(2, 1.0)], 0.0)))],
        removed: vec![RemRep { constraint: ConRep::new(5, LE_ZERO, Some(lin(vec![(1, 1.0)], 0.0))), reason: "r".into(), parameters: vec![] }],
        ..Default::default()
    };
    let mut p = v1::ParametricInstance::from(rep.to_msg());
    for id in [10u64, 11, 12] {
        let mut x = v1::Parameter::default();
        x.id = id;
        p.parameters.push(x);
    }
    p
}

type PFault = (String, Box<dyn Fn(&mut v1::ParametricInstance) + Send + Sync>);

fn parametric_catalogue() -> Vec<PFault> {
    let mut v: Vec<PFault> = vec![];
    v.push(("param[0].id:=var[0].id".into(), Box::new(|p| p.parameters[0].id = p.decision_variables[0].id)));
    v.push(("var[1].id:=param[1].id".into(), Box::new(|p| p.decision_variables[1].id = p.parameters[1].id)));
    // joint uniqueness in isolation: every used id stays defined, only the two id spaces overlap
    v.push(("unused param[2].id:=var[0].id".into(), Box::new(|p| p.parameters[2].id = p.decision_variables[0].id)));
    v.push(("parameters += {id of var[1]}".into(), Box::new(|p| {
        let mut x = v1::Parameter::default();
        x.id = p.decision_variables[1].id;
        p.parameters.insert(0, x);
    })));
    v.push(("decision_variables += {id of unused param[2]}".into(), Box::new(|p| {
        let mut d = p.decision_variables[0].clone();
        d.id = p.parameters[2].id;
        p.decision_variables.push(d);
    })));
    v.push(("param[1].id:=param[0].id".into(), Box::new(|p| p.parameters[1].id = p.parameters[0].id)));
    v.push(("var[1].id:=var[0].id".into(), Box::new(|p| p.decision_variables[1].id = p.decision_variables[0].id)));
    v.push(("objective id:=undefined".into(), Box::new(|p| if let Some(f) = p.objective.as_mut() { *id_slots(f).into_iter().next().unwrap() = UNDEF })));
    v.push(("constraints[0] id:=undefined".into(), Box::new(|p| if let Some(f) = p.constraints[0].function.as_mut() { *id_slots(f).into_iter().nth(1).unwrap() = UNDEF })));
    v.push(("constraints[1].id:=constraints[0].id".into(), Box::new(|p| p.constraints[1].id = p.constraints[0].id)));
    v.push(("removed[0].id:=constraints[0].id".into(), Box::new(|p| p.removed_constraints[0].constraint.as_mut().unwrap().id = p.constraints[0].id)));
    v.push(("unused parameter removed (neutral)".into(), Box::new(|p| { p.parameters.pop(); })));
    v.push(("removed[0] id:=undefined (neutral: removed constraints are not covered)".into(), Box::new(|p| if let Some(f) = p.removed_constraints[0].constraint.as_mut().unwrap().function.as_mut() { *id_slots(f).into_iter().next().unwrap() = UNDEF })));
    v.push(("used parameter 11 removed".into(), Box::new(|p| p.parameters.retain(|x| x.id != 11))));
    v
}

fn parametric_reference(p: &v1::ParametricInstance) -> bool {
    // true = must be rejected
    let mut ids = BTreeSet::new();
    for d in &p.decision_variables {
        if !ids.insert(d.id) {
            return true;
        }
    }
    for x in &p.parameters {
        if !ids.insert(x.id) {
            return true;
        }
    }
    let mut used = BTreeSet::new();
    if let Some(f) = &p.objective {
        used.extend(ids_of_function(f));
    }
    for c in &p.constraints {
        if let Some(f) = &c.function {
            used.extend(ids_of_function(f));
        }
    }
    if !used.is_subset(&ids) {
        return true;
    }
    let mut c = BTreeSet::new();
    for x in &p.constraints {
        if !c.insert(x.id) {
            return true;
        }
    }
    for r in &p.removed_constraints {
        if let Some(x) = &r.constraint {
            if !c.insert(x.id) {
                return true;
            }
        }
    }
    false
}

pub fn check_case(l: &mut Local, case: &Case) {
    l.evaluations += 1;
    match case {
        Case::Faults { base, faults, .. } => {
            let b = bases()[*base].to_msg();
            let cat = catalogue(&b);
            let mut m = b.clone();
            for f in faults {
                // a fault whose target was removed by an earlier fault of the pair is a no-op
                let _ = sdk(|| (cat[*f].apply)(&mut m));
            }
            if !faults.is_empty() {
                l.nontrivial += 1;
            }
            check_message(l, case, &m, if faults.len() <= 1 { "single" } else { "pair" });
        }
        Case::Valid { inst } => {
            l.nontrivial += 1;
            check_message(l, case, &inst.to_msg(), "family");
        }
        Case::Parametric { faults, .. } => {
            let mut p = parametric_base();
            let cat = parametric_catalogue();
            for f in faults {
                let _ = sdk(|| (cat[*f].1)(&mut p));
            }
            l.nontrivial += 1;
            l.transitions += 1;
            let must_reject = parametric_reference(&p);
            l.outcome(&("parametric", must_reject, faults));
            match sdk(|| p.validate().map_err(|e| format!("{e:#}"))) {
                Err(pn) => l.violation("parametric/validate/panic", || json!(case), pn),
                Ok(Ok(())) if must_reject => l.violation("parametric/validate/accepted-ill-formed", || json!(case), "ParametricInstance::validate succeeded although ids are duplicated or undefined".into()),
                Ok(Err(e)) if !must_reject => l.violation("parametric/validate/rejected-well-formed", || json!(case), format!("ParametricInstance::validate failed on a well-formed message: {e}")),
                _ => {}
            }
        }
    }
}

pub fn run(ctx: &Ctx) -> Finish {
    // the full pair enumeration takes about a second, so both tiers run it
    let t = true;
    let bs = bases();
    let mut total_single = 0usize;
    let mut total_pairs = 0usize;
    for (bi, b) in bs.iter().enumerate() {
        let msg = b.to_msg();
        let cat = catalogue(&msg);
        let names: Vec<String> = cat.iter().map(|f| f.name.clone()).collect();
        let n = cat.len();
        total_single += n + 1;
        ctx.seq(|l| {
            l.states += 1;
            check_case(l, &Case::Faults { base: bi, faults: vec![], names: vec![] });
        });
        ctx.par(n, |l, i| {
            l.states += 1;
            let case = Case::Faults { base: bi, faults: vec![i], names: vec![names[i].clone()] };
            if ctx.want_sample((bi * 100_000 + i) as u64) {
                l.samples.push(((bi * 100_000 + i) as u64, json!(case)));
            }
            check_case(l, &case);
        });
        // every ordered pair of faults (quick: the large base walks a fixed sub-grid)
        let stride = if !t && n > 120 { 3 } else { 1 };
        total_pairs += n * n / stride;
        ctx.par(n, |l, i| {
            let mut j = i % stride;
            while j < n {
                if i != j {
                    l.states += 1;
                    check_case(l, &Case::Faults { base: bi, faults: vec![i, j], names: vec![names[i].clone(), names[j].clone()] });
                }
                j += stride;
            }
        });
    }
    ctx.note("bases", json!(bs.len()));
    ctx.note("single_fault_cases", json!(total_single));
    ctx.note("fault_pair_cases", json!(total_pairs));
    // the accepting side on the valid instance families of other properties
    let fam = super::c03::inst_family(ctx.tier);
    ctx.note("family_instances", json!(fam.len()));
    ctx.par(fam.len(), |l, i| {
        l.states += 1;
        check_case(l, &Case::Valid { inst: fam[i].clone() });
    });
    // parametric instances: single faults and pairs
    let pc = parametric_catalogue();
    let pnames: Vec<String> = pc.iter().map(|f| f.0.clone()).collect();
    ctx.seq(|l| {
        check_case(l, &Case::Parametric { base: 0, faults: vec![], names: vec![] });
        for i in 0..pc.len() {
            check_case(l, &Case::Parametric { base: 0, faults: vec![i], names: vec![pnames[i].clone()] });
            for j in 0..pc.len() {
                if i != j {
                    check_case(l, &Case::Parametric { base: 0, faults: vec![i, j], names: vec![pnames[i].clone(), pnames[j].clone()] });
                }
            }
        }
    });
    ctx.assume("The oracle is a reference validator that re-derives the set of violated rules from the mutated message itself, so interfering fault pairs cannot mislead it; the SDK's error must be one of the violated rules (variant + outermost field).");
    ctx.assume("Hints that name a removed constraint are outside the alphabet (the property does not say whether a removed constraint counts as defined for hints).");
    Finish {
        level: "fault_enumeration",
        rule: "every single fault at every position of each valid base instance (duplicate an id for every ordered pair of variables / of constraints across active+removed, replace each id occurrence of each function by an undefined id, unset each required field and each oneof, each invalid bound shape on each variable, every hint fault, undefined dependency key, neutral mutations) and every ordered pair of faults, through validate() and TryFrom<v1::Instance>; oracle = reference validator on the mutated message (accept iff no rule violated; error variant and outermost field must name a violated rule; validate() rejects iff ids duplicated / used ids undefined); accepted messages: typed view compared field by field through hook H2; the instance family of C03 as accepting-side corpus; parametric validate with its own fault list; non-trivial = at least one fault applied or family instance".into(),
        bounds: json!({"bases": bs.len(), "faults_simultaneous_max": 2, "undefined_id": UNDEF}),
        exhaustive: t,
    }
}

pub fn replay(l: &mut Local, case: &serde_json::Value) -> Result<(), String> {
    let c: Case = serde_json::from_value(case.clone()).map_err(|e| e.to_string())?;
    check_case(l, &c);
    Ok(())
}

//! C11 — QUBO/PUBO export reproduces the objective on every binary assignment.

use crate::engine::*;
use crate::refmodel::family::*;
use crate::refmodel::msg::*;
use crate::refmodel::poly::*;
use num::Zero;
use serde::{Deserialize, Serialize};
use serde_json::json;
use std::collections::BTreeSet;

#[derive(Clone, Debug, Serialize, Deserialize, PartialEq)]
pub enum Variant {
    Base,
    ActiveConstraint,
    RemovedConstraintOnly,
    Maximize,
    NonBinary { id: u64, kind: i32 },
    /// an extra variable (id 9) of a non-binary kind that the objective does not use; optionally
    /// mentioned by a removed constraint. The objective is still a function of binaries only.
    UnusedNonBinary { kind: i32, in_removed: bool },
    /// the objective uses an id for which no decision variable is defined (so it is not a binary variable)
    UndefinedVariable { id: u64 },
}

#[derive(Clone, Debug, Serialize, Deserialize)]
pub struct Case {
    pub objective: Option<FnRep>,
    pub binary_ids: Vec<u64>,
    pub variant: Variant,
}

fn build(case: &Case) -> InstRep {
    let mut vars: Vec<VarRep> = case.binary_ids.iter().map(|i| VarRep::new(*i, KIND_BINARY, if i % 2 == 0 { Some((0.0, 1.0)) } else { None })).collect();
    let mut inst = InstRep { sense: SENSE_MIN, objective: case.objective.clone(), ..Default::default() };
    match &case.variant {
        Variant::Base => {}
        Variant::ActiveConstraint => inst.constraints.push(ConRep::new(0, LE_ZERO, Some(FnRep::Lin { terms: vec![(case.binary_ids[0], 1.0)], c: -1.0 }))),
        Variant::RemovedConstraintOnly => inst.removed.push(RemRep {
            constraint: ConRep::new(0, LE_ZERO, Some(FnRep::Lin { terms: vec![(case.binary_ids[0], 1.0)], c: -1.0 })),
            reason: "penalty_method".into(),
            parameters: vec![],
        }),
        Variant::Maximize => inst.sense = SENSE_MAX,
        Variant::UnusedNonBinary { kind, in_removed } => {
            vars.push(VarRep::new(9, *kind, Some((0.0, 3.0))));
            if *in_removed {
                inst.removed.push(RemRep {
                    constraint: ConRep::new(4, LE_ZERO, Some(FnRep::Lin { terms: vec![(case.binary_ids[0], 1.0), (9, 1.0)], c: -2.0 })),
                    reason: "relaxed".into(),
                    parameters: vec![],
                });
            }
        }
        Variant::UndefinedVariable { id } => vars.retain(|v| v.id != *id),
        Variant::NonBinary { id, kind } => {
            for v in vars.iter_mut() {
                if v.id == *id {
                    v.kind = *kind;
                    v.bound = Some((X(0.0), X(1.0)));
                }
            }
        }
    }
    inst.vars = vars;
    inst
}

/// ids of listed terms with non-zero coefficient, as (distinct id set) per term
fn nonzero_term_sets(f: &Option<FnRep>) -> Vec<BTreeSet<u64>> {
    let mut out = vec![];
    match f {
        None | Some(FnRep::Unset) | Some(FnRep::Const(_)) => {}
        Some(FnRep::Lin { terms, .. }) => out.extend(terms.iter().filter(|t| t.1 != 0.0).map(|t| [t.0].into_iter().collect())),
        Some(FnRep::Quad { entries, lin }) => {
            out.extend(entries.iter().filter(|e| e.2 != 0.0).map(|e| [e.0, e.1].into_iter().collect()));
            if let Some((t, _)) = lin {
                out.extend(t.iter().filter(|t| t.1 != 0.0).map(|t| [t.0].into_iter().collect()));
            }
        }
        Some(FnRep::Poly { terms }) => out.extend(terms.iter().filter(|t| t.1 != 0.0).map(|t| t.0.iter().cloned().collect())),
    }
    out
}

pub fn check_case(l: &mut Local, case: &Case) {
    l.evaluations += 1;
    let inst = build(case);
    let msg = inst.to_msg();
    let poly = inst.objective_poly();
    let n = case.binary_ids.len();
    let term_sets = nonzero_term_sets(&case.objective);
    let cubic_term = term_sets.iter().any(|s| s.len() > 2);
    let any_zero_cubic = {
        // a listed zero-coefficient term with > 2 distinct variables: refusal is not asserted either way
        let all: usize = case.objective.as_ref().map_or(0, |f| match f {
            FnRep::Poly { terms } => terms.iter().filter(|t| t.1 == 0.0 && t.0.iter().collect::<BTreeSet<_>>().len() > 2).count(),
            _ => 0,
        });
        all > 0
    };
    let must_refuse = !matches!(case.variant, Variant::Base | Variant::RemovedConstraintOnly | Variant::UnusedNonBinary { .. });
    if !poly.is_zero() {
        l.nontrivial += 1;
    }
    // ---------------- PUBO
    l.transitions += 1;
    let pubo = sdk(|| msg.as_pubo_format().map(|m| m.into_iter().map(|(k, v)| (k.iter().cloned().collect::<Vec<u64>>(), v)).collect::<Vec<_>>()).map_err(|e| format!("{e:#}")));
    match pubo {
        Err(p) => l.violation("pubo/panic", || json!(case), p),
        Ok(Ok(_)) if must_refuse => l.violation(
            &format!("pubo/not-refused/{}", variant_tag(&case.variant)),
            || json!(case),
            format!("as_pubo_format succeeded although export must be refused ({:?})", case.variant),
        ),
        Ok(Err(_)) if must_refuse => l.outcome(&"refused"),
        Ok(Err(e)) => l.violation(&format!("pubo/refused-valid-instance/{}", variant_tag(&case.variant)), || json!(case), format!("as_pubo_format failed on an unconstrained binary minimisation instance: {e}")),
        Ok(Ok(entries)) => {
            for (k, v) in &entries {
                if k.windows(2).any(|w| w[0] >= w[1]) {
                    l.violation("pubo/key-not-canonical", || json!(case), format!("key {k:?} is not a strictly increasing id set"));
                }
                if v.abs() <= f64::EPSILON {
                    l.violation("pubo/zero-coefficient-stored", || json!(case), format!("key {k:?} stored with coefficient {v}"));
                }
                if let Some(bad) = k.iter().find(|i| !case.binary_ids.contains(i)) {
                    l.violation("pubo/unknown-id", || json!(case), format!("key {k:?} mentions id {bad} which is not a binary variable"));
                }
            }
            let mut keys: Vec<&Vec<u64>> = entries.iter().map(|e| &e.0).collect();
            keys.sort();
            if keys.windows(2).any(|w| w[0] == w[1]) {
                l.violation("pubo/duplicate-key", || json!(case), "same key twice".into());
            }
            let fe = FastEval::from_terms(&case.binary_ids, poly.0.iter().map(|(k, v)| (k.clone(), v.clone())));
            let fg = FastEval::from_terms(&case.binary_ids, entries.iter().map(|(k, v)| (k.clone(), q_opt(*v).unwrap_or_else(Q::zero))));
            for mask in 0..(1u32 << n) {
                let (a, b) = match (&fe, &fg) {
                    (Some(fe), Some(fg)) => (qr(fe.eval(mask), 4), qr(fg.eval(mask), 4)),
                    _ => {
                        let st: QState = case.binary_ids.iter().enumerate().map(|(i, id)| (*id, qi((mask >> i & 1) as i64))).collect();
                        let mut s = Q::zero();
                        for (k, v) in &entries {
                            if k.iter().all(|id| st.get(id).is_some_and(|x| !x.is_zero())) {
                                s += q_opt(*v).unwrap_or_else(Q::zero);
                            }
                        }
                        (poly.eval(&st).unwrap(), s)
                    }
                };
                if mask == (1u32 << n) - 1 {
                    l.outcome(&a);
                }
                if a != b {
                    let on: Vec<u64> = case.binary_ids.iter().enumerate().filter(|(i, _)| mask >> i & 1 == 1).map(|(_, id)| *id).collect();
                    l.violation(
                        "pubo/value",
                        || json!(case),
                        format!("at the assignment with exactly {on:?} set to 1: PUBO dictionary {} gives {}, objective {} is {}", truncate(&format!("{entries:?}"), 400), qs(&b), truncate(&poly.show(), 400), qs(&a)),
                    );
                    break;
                }
            }
        }
    }
    // ---------------- QUBO
    l.transitions += 1;
    let qubo = sdk(|| msg.as_qubo_format().map(|(m, c)| (m.into_iter().map(|(k, v)| ((k.0, k.1), v)).collect::<Vec<_>>(), c)).map_err(|e| format!("{e:#}")));
    match qubo {
        Err(p) => l.violation("qubo/panic", || json!(case), p),
        Ok(Ok(_)) if must_refuse => l.violation(
            &format!("qubo/not-refused/{}", variant_tag(&case.variant)),
            || json!(case),
            format!("as_qubo_format succeeded although export must be refused ({:?})", case.variant),
        ),
        Ok(Ok(_)) if cubic_term => l.violation(
            "qubo/not-refused/more-than-two-variables",
            || json!(case),
            "as_qubo_format succeeded although a term involves more than two distinct variables".into(),
        ),
        Ok(Err(_)) if must_refuse || cubic_term || any_zero_cubic => l.outcome(&"refused"),
        Ok(Err(e)) => l.violation(&format!("qubo/refused-valid-instance/{}", variant_tag(&case.variant)), || json!(case), format!("as_qubo_format failed on a quadratic unconstrained binary minimisation instance: {e}")),
        Ok(Ok((entries, offset))) => {
            for ((i, j), v) in &entries {
                if i > j {
                    l.violation("qubo/key-not-canonical", || json!(case), format!("key ({i},{j}) has i > j"));
                }
                if v.abs() <= f64::EPSILON {
                    l.violation("qubo/zero-coefficient-stored", || json!(case), format!("key ({i},{j}) stored with coefficient {v}"));
                }
            }
            let mut keys: Vec<(u64, u64)> = entries.iter().map(|e| e.0).collect();
            keys.sort();
            if keys.windows(2).any(|w| w[0] == w[1]) {
                l.violation("qubo/duplicate-key", || json!(case), "same key twice".into());
            }
            let fe = FastEval::from_terms(&case.binary_ids, poly.0.iter().map(|(k, v)| (k.clone(), v.clone())));
            let fg = FastEval::from_terms(
                &case.binary_ids,
                entries
                    .iter()
                    .map(|((i, j), v)| (vec![*i, *j], q_opt(*v).unwrap_or_else(Q::zero)))
                    .chain(std::iter::once((vec![], q_opt(offset).unwrap_or_else(Q::zero)))),
            );
            for mask in 0..(1u32 << n) {
                let (a, b) = match (&fe, &fg) {
                    (Some(fe), Some(fg)) => (qr(fe.eval(mask), 4), qr(fg.eval(mask), 4)),
                    _ => {
                        let st: QState = case.binary_ids.iter().enumerate().map(|(i, id)| (*id, qi((mask >> i & 1) as i64))).collect();
                        let mut s = q_opt(offset).unwrap_or_else(Q::zero);
                        for ((i, j), v) in &entries {
                            let on = |id: &u64| st.get(id).is_some_and(|x| !x.is_zero());
                            if on(i) && on(j) {
                                s += q_opt(*v).unwrap_or_else(Q::zero);
                            }
                        }
                        (poly.eval(&st).unwrap(), s)
                    }
                };
                if a != b {
                    let on: Vec<u64> = case.binary_ids.iter().enumerate().filter(|(i, _)| mask >> i & 1 == 1).map(|(_, id)| *id).collect();
                    l.violation(
                        "qubo/value",
                        || json!(case),
                        format!("at the assignment with exactly {on:?} set to 1: QUBO {} + offset {} gives {}, objective {} is {}", truncate(&format!("{entries:?}"), 400), offset, qs(&b), truncate(&poly.show(), 400), qs(&a)),
                    );
                    break;
                }
            }
        }
    }
}

/// Exact evaluation on binary assignments in scaled integers (all alphabets use multiples of 1/4);
/// falls back to `None` when a coefficient is not a multiple of 1/4.
struct FastEval {
    terms: Vec<(u32, i64)>,
}

impl FastEval {
    fn scaled(x: &Q) -> Option<i64> {
        use num::ToPrimitive;
        let y = x * qi(4);
        if y.is_integer() {
            y.to_integer().to_i64()
        } else {
            None
        }
    }
    fn from_terms(ids: &[u64], terms: impl Iterator<Item = (Vec<u64>, Q)>) -> Option<FastEval> {
        let mut out = vec![];
        for (k, c) in terms {
            let mut m = 0u32;
            for id in &k {
                let pos = ids.iter().position(|x| x == id)?;
                m |= 1 << pos;
            }
            out.push((m, Self::scaled(&c)?));
        }
        Some(FastEval { terms: out })
    }
    fn eval(&self, mask: u32) -> i64 {
        self.terms.iter().filter(|(m, _)| m & mask == *m).map(|(_, c)| *c).sum()
    }
}

fn variant_tag(v: &Variant) -> &'static str {
    match v {
        Variant::Base => "base",
        Variant::ActiveConstraint => "active-constraint",
        Variant::RemovedConstraintOnly => "removed-constraint-only",
        Variant::Maximize => "maximize",
        Variant::UnusedNonBinary { in_removed: false, .. } => "unused-non-binary-variable",
        Variant::UnusedNonBinary { in_removed: true, .. } => "non-binary-variable-in-removed-constraint",
        Variant::UndefinedVariable { .. } => "undefined-variable",
        Variant::NonBinary { kind, .. } => match *kind {
            KIND_INTEGER => "integer-variable",
            KIND_CONTINUOUS => "continuous-variable",
            4 => "semi-integer-variable",
            5 => "semi-continuous-variable",
            _ => "unspecified-kind-variable",
        },
    }
}

/// deterministic large families: all monomials of degree <= d over n variables
fn large_family(n: usize, d: usize, pattern: usize, as_quadratic: bool) -> FnRep {
    let coefs = [1.0, -0.5, 2.0, 0.0, -1.0];
    let ids: Vec<u64> = (0..n as u64).map(|i| i * 3 + 1).collect();
    let mut monos: Vec<Vec<u64>> = vec![vec![]];
    // non-decreasing index sequences of length 1..=d
    fn rec(ids: &[u64], start: usize, left: usize, cur: &mut Vec<u64>, out: &mut Vec<Vec<u64>>) {
        if !cur.is_empty() {
            out.push(cur.clone());
        }
        if left == 0 {
            return;
        }
        for i in start..ids.len() {
            cur.push(ids[i]);
            rec(ids, i, left - 1, cur, out);
            cur.pop();
        }
    }
    rec(&ids, 0, d, &mut vec![], &mut monos);
    if as_quadratic {
        let mut entries = vec![];
        let mut lin = vec![];
        let mut c = 0.0;
        for (k, m) in monos.iter().enumerate() {
            let co = coefs[(k * 7 + pattern) % 5];
            match m.len() {
                0 => c = co,
                1 => lin.push((m[0], co)),
                _ => {
                    // alternate upper / lower triangle
                    if k % 2 == 0 {
                        entries.push((m[0], m[1], co))
                    } else {
                        entries.push((m[1], m[0], co))
                    }
                }
            }
        }
        FnRep::Quad { entries, lin: Some((lin, c)) }
    } else {
        FnRep::Poly {
            terms: monos.iter().enumerate().map(|(k, m)| {
                let mut m = m.clone();
                if k % 3 == 1 {
                    m.reverse();
                }
                (m, coefs[(k * 7 + pattern) % 5])
            }).collect(),
        }
    }
}

pub fn run(ctx: &Ctx) -> Finish {
    // the full alphabet runs in a few seconds, so both tiers use it
    let t = true;
    let mut fs: Vec<Option<FnRep>> = vec![None];
    fs.extend(super::c01::functions(Tier::Thorough).into_iter().map(Some));
    ctx.note("small_objectives", json!(fs.len()));
    ctx.par(fs.len(), |l, i| {
        let f = &fs[i];
        l.states += 1;
        let base = Case { objective: f.clone(), binary_ids: vec![1, 2, 7], variant: Variant::Base };
        if ctx.want_sample(i as u64) {
            l.samples.push((i as u64, json!(base)));
        }
        check_case(l, &base);
        // the decision-variable list is a set: the same instance with the list out of id order
        check_case(l, &Case { objective: f.clone(), binary_ids: vec![7, 1, 2], variant: Variant::Base });
        check_case(l, &Case { objective: f.clone(), binary_ids: vec![2, 7, 1], variant: Variant::RemovedConstraintOnly });
        // every refusal condition on every base
        for v in [Variant::ActiveConstraint, Variant::Maximize, Variant::RemovedConstraintOnly] {
            check_case(l, &Case { objective: f.clone(), binary_ids: vec![1, 2, 7], variant: v });
        }
        for kind in [KIND_INTEGER, KIND_CONTINUOUS, 4, 5, 0] {
            for in_removed in [false, true] {
                check_case(l, &Case { objective: f.clone(), binary_ids: vec![1, 2, 7], variant: Variant::UnusedNonBinary { kind, in_removed } });
            }
        }
        let nz: BTreeSet<u64> = nonzero_term_sets(f).into_iter().flatten().collect();
        for id in nz {
            check_case(l, &Case { objective: f.clone(), binary_ids: vec![1, 2, 7], variant: Variant::UndefinedVariable { id } });
            for kind in [KIND_INTEGER, KIND_CONTINUOUS, 4, 5, 0] {
                check_case(l, &Case { objective: f.clone(), binary_ids: vec![1, 2, 7], variant: Variant::NonBinary { id, kind } });
            }
        }
    });
    // large deterministic families up to n = 12, all 2^n assignments
    let mut big: Vec<Case> = vec![];
    for n in 4..=12usize {
        for d in 1..=4usize {
            if n >= 9 && d == 4 && !t {
                continue;
            }
            for pattern in 0..(if t { 5 } else { 2 }) {
                let ids: Vec<u64> = (0..n as u64).map(|i| i * 3 + 1).collect();
                big.push(Case { objective: Some(large_family(n, d, pattern, false)), binary_ids: if pattern % 2 == 1 { ids.iter().rev().cloned().collect() } else { ids.clone() }, variant: Variant::Base });
                if d <= 2 {
                    big.push(Case { objective: Some(large_family(n, d, pattern, true)), binary_ids: ids, variant: Variant::Base });
                }
            }
        }
    }
    ctx.note("large_families", json!(big.len()));
    ctx.par(big.len(), |l, i| {
        l.states += 1;
        check_case(l, &big[i]);
    });
    Finish {
        level: "model_checking",
        rule: "every objective message of the C01 representation alphabet over 3 binary variables (all variants, repeated ids inside monomials, x^2, cancelling terms, split constants, zeros) and deterministic all-monomial families for n = 4..12, degree <= 4; PUBO and QUBO dictionaries checked on ALL 2^n assignments against the exact objective, keys canonical, no zero coefficient stored; the variable list in and out of id order; every refusal condition (active constraint, maximise, used integer / continuous / semi-* / unspecified / undefined variable at each position, >2 distinct variables for QUBO) on every base; a removed constraint alone, a defined non-binary variable the objective does not use, and such a variable mentioned only by a removed constraint must not cause refusal".into(),
        bounds: json!({"n_small": 3, "n_large": "4..=12", "degree_max": 4, "assignments": "all 2^n"}),
        exhaustive: true,
    }
}

pub fn replay(l: &mut Local, case: &serde_json::Value) -> Result<(), String> {
    let c: Case = serde_json::from_value(case.clone()).map_err(|e| e.to_string())?;
    check_case(l, &c);
    Ok(())
}

//! C01 — evaluating a function returns the polynomial's mathematical value.

use crate::engine::*;
use crate::refmodel::family::*;
use crate::refmodel::msg::*;
use crate::refmodel::poly::*;
use num::{Signed, Zero};
use ommx::{v1, Evaluate};
use serde::{Deserialize, Serialize};
use serde_json::json;
use std::collections::BTreeSet;

#[derive(Clone, Debug, Serialize, Deserialize)]
pub struct Case {
    pub f: FnRep,
    pub state: Vec<(u64, f64)>,
    /// bit-exact comparison (dyadic alphabet) or rounding-bound comparison
    pub exact: bool,
}

type EvalOut = Result<(f64, BTreeSet<u64>), String>;

fn eval_all_paths(f: &v1::Function, st: &v1::State) -> Vec<(&'static str, Result<EvalOut, String>)> {
    use v1::function::Function as FE;
    let mut out = vec![];
    out.push((
        "Function",
        sdk(|| f.evaluate(st).map_err(|e| format!("{e:#}"))),
    ));
    match &f.function {
        Some(FE::Linear(l)) => out.push(("Linear", sdk(|| l.evaluate(st).map_err(|e| format!("{e:#}"))))),
        Some(FE::Quadratic(qd)) => {
            out.push(("Quadratic", sdk(|| qd.evaluate(st).map_err(|e| format!("{e:#}")))))
        }
        Some(FE::Polynomial(p)) => {
            out.push(("Polynomial", sdk(|| p.evaluate(st).map_err(|e| format!("{e:#}")))))
        }
        _ => {}
    }
    out
}

pub fn check_case(l: &mut Local, case: &Case) {
    let f = case.f.to_msg();
    let poly = case.f.poly();
    let occurring = case.f.occurring_ids();
    let st = mk_state(&case.state);
    let qst = qstate(&case.state);
    let missing: Vec<u64> = occurring.iter().filter(|i| !qst.contains_key(i)).cloned().collect();
    let variant = case.f.variant();
    l.evaluations += 1;
    if !poly.is_zero() && !case.state.is_empty() {
        l.nontrivial += 1;
    }
    for (path, r) in eval_all_paths(&f, &st) {
        l.transitions += 1;
        let r = match r {
            Ok(r) => r,
            Err(p) => {
                l.violation(
                    &format!("{variant}/panic"),
                    || json!(case),
                    format!("{path}::evaluate panicked: {p}"),
                );
                continue;
            }
        };
        if !missing.is_empty() {
            l.outcome(&("err", missing.len()));
            if let Ok((v, _)) = r {
                l.violation(
                    &format!("{variant}/missing-variable-not-an-error"),
                    || json!(case),
                    format!("{path}::evaluate returned {v} although the state lacks occurring id(s) {missing:?}"),
                );
            }
            continue;
        }
        let expected = poly.eval(&qst).expect("all ids present");
        l.outcome(&expected);
        match r {
            Err(e) => l.violation(
                &format!("{variant}/unexpected-error"),
                || json!(case),
                format!("{path}::evaluate failed ({e}) on a complete state; expected {}", qs(&expected)),
            ),
            Ok((v, used)) => {
                let ok = match q_opt(v) {
                    None => false,
                    Some(vq) => {
                        if case.exact {
                            vq == expected
                        } else {
                            let n = 4 * (case.f.n_terms() as i64 + 2) * (poly.degree() as i64 + 1);
                            let u = qr(1, 1i64 << 53);
                            let gamma = &(qi(n) * &u) / &(qi(1) - qi(n) * &u);
                            let mag = abs_mag(&case.f, &qst);
                            (vq - &expected).abs() <= gamma * mag
                        }
                    }
                };
                if !ok {
                    l.violation(
                        &format!("{variant}/value"),
                        || json!(case),
                        format!("{path}::evaluate = {v}, exact value = {} ({})", qs(&expected), q_to_f64(&expected)),
                    );
                }
                if used != occurring {
                    l.violation(
                        &format!("{variant}/used-ids"),
                        || json!(case),
                        format!("{path}::evaluate used ids {used:?}, ids occurring in the message {occurring:?}"),
                    );
                }
            }
        }
    }
    // The sampled entry point of the same impls: the state under two sample ids (one entry), next to a
    // complete companion state (all ones) under a third id. Every sample's value is that of evaluating
    // its state alone; one incomplete state makes the whole call fail.
    let mut ones: Vec<(u64, f64)> = occurring.iter().map(|i| (*i, 1.0)).collect();
    for (i, _) in &case.state {
        if !occurring.contains(i) {
            ones.push((*i, 1.0));
        }
    }
    let mut samples = v1::Samples::default();
    samples.add_sample(5, st.clone());
    samples.add_sample(9, mk_state(&ones));
    samples.add_sample(2, st.clone());
    let expected_ones = poly.eval(&qstate(&ones)).expect("all ids present");
    for (path, r) in eval_samples_all_paths(&f, &samples) {
        l.transitions += 1;
        let r = match r {
            Ok(r) => r,
            Err(p) => {
                l.violation(&format!("{variant}/samples/panic"), || json!(case), format!("{path}::evaluate_samples panicked: {p}"));
                continue;
            }
        };
        if !missing.is_empty() {
            if r.is_ok() {
                l.violation(
                    &format!("{variant}/samples/missing-variable-not-an-error"),
                    || json!(case),
                    format!("{path}::evaluate_samples succeeded although the state of samples 5 and 2 lacks occurring id(s) {missing:?}"),
                );
            }
            continue;
        }
        let expected = poly.eval(&qst).expect("all ids present");
        match r {
            Err(e) => l.violation(&format!("{variant}/samples/unexpected-error"), || json!(case), format!("{path}::evaluate_samples failed ({e}) on complete states")),
            Ok((vals, used)) => {
                let close = |v: Option<f64>, want: &Q, st: &QState| -> bool {
                    let Some(vq) = v.and_then(q_opt) else { return false };
                    if case.exact {
                        &vq == want
                    } else {
                        let n = 4 * (case.f.n_terms() as i64 + 2) * (poly.degree() as i64 + 1);
                        let u = qr(1, 1i64 << 53);
                        let gamma = &(qi(n) * &u) / &(qi(1) - qi(n) * &u);
                        (vq - want).abs() <= gamma * abs_mag(&case.f, st)
                    }
                };
                let got = (vals.get(5), vals.get(2), vals.get(9));
                let keys: BTreeSet<u64> = vals.iter().map(|(i, _)| *i).collect();
                if !close(got.0, &expected, &qst) || !close(got.1, &expected, &qst) || !close(got.2, &expected_ones, &qstate(&ones)) || keys != [2u64, 5, 9].into_iter().collect() {
                    l.violation(
                        &format!("{variant}/samples/value"),
                        || json!(case),
                        format!("{path}::evaluate_samples gives (sample 5, sample 2, sample 9) = {got:?} keyed by {keys:?}; evaluating each state alone gives {} , {} , {}", qs(&expected), qs(&expected), qs(&expected_ones)),
                    );
                }
                if used != occurring {
                    l.violation(&format!("{variant}/samples/used-ids"), || json!(case), format!("{path}::evaluate_samples used ids {used:?}, occurring {occurring:?}"));
                }
            }
        }
    }
}

type SampledOut = Result<(v1::SampledValues, BTreeSet<u64>), String>;

fn eval_samples_all_paths(f: &v1::Function, s: &v1::Samples) -> Vec<(&'static str, Result<SampledOut, String>)> {
    use v1::function::Function as FE;
    let mut out = vec![("Function", sdk(|| f.evaluate_samples(s).map_err(|e| format!("{e:#}"))))];
    match &f.function {
        Some(FE::Linear(l)) => out.push(("Linear", sdk(|| l.evaluate_samples(s).map_err(|e| format!("{e:#}"))))),
        Some(FE::Quadratic(qd)) => out.push(("Quadratic", sdk(|| qd.evaluate_samples(s).map_err(|e| format!("{e:#}"))))),
        Some(FE::Polynomial(p)) => out.push(("Polynomial", sdk(|| p.evaluate_samples(s).map_err(|e| format!("{e:#}"))))),
        _ => {}
    }
    out
}

/// Σ|c_i Π x_j| over the *listed* terms of the message (not merged), for rounding bounds.
fn abs_mag(f: &FnRep, st: &QState) -> Q {
    let get = |id: &u64| st.get(id).cloned().unwrap_or_else(Q::zero).abs();
    let mut s = Q::zero();
    let lin = |terms: &Vec<(u64, f64)>, c: f64| {
        let mut s = q(c).abs();
        for (id, co) in terms {
            s += q(*co).abs() * get(id);
        }
        s
    };
    match f {
        FnRep::Unset => {}
        FnRep::Const(c) => s += q(*c).abs(),
        FnRep::Lin { terms, c } => s += lin(terms, *c),
        FnRep::Quad { entries, lin: lp } => {
            for (r, c, v) in entries {
                s += q(*v).abs() * get(r) * get(c);
            }
            if let Some((t, c)) = lp {
                s += lin(t, *c);
            }
        }
        FnRep::Poly { terms } => {
            for (ids, c) in terms {
                let mut t = q(*c).abs();
                for id in ids {
                    t *= get(id);
                }
                s += t;
            }
        }
    }
    s
}

fn states_for(f: &FnRep, ids: &[u64], values: &[f64], extra_id: u64) -> Vec<Vec<(u64, f64)>> {
    let mut out = vec![];
    odometer(&vec![values.len(); ids.len()], |d| {
        out.push(ids.iter().zip(d).map(|(id, i)| (*id, values[*i])).collect::<Vec<_>>());
    });
    // one irrelevant extra id
    let mut with_extra: Vec<(u64, f64)> = ids.iter().map(|i| (*i, values[0])).collect();
    with_extra.push((extra_id, 3.0));
    out.push(with_extra);
    // the state lacking exactly one occurring id
    for miss in f.occurring_ids() {
        let st: Vec<(u64, f64)> = ids
            .iter()
            .filter(|i| **i != miss)
            .enumerate()
            .map(|(k, i)| (*i, values[(k + 1) % values.len()]))
            .collect();
        out.push(st);
    }
    // the empty state
    out.push(vec![]);
    out
}

pub fn rename(f: &FnRep, map: &dyn Fn(u64) -> u64) -> FnRep {
    match f {
        FnRep::Unset => FnRep::Unset,
        FnRep::Const(c) => FnRep::Const(*c),
        FnRep::Lin { terms, c } => FnRep::Lin {
            terms: terms.iter().map(|(i, v)| (map(*i), *v)).collect(),
            c: *c,
        },
        FnRep::Quad { entries, lin } => FnRep::Quad {
            entries: entries.iter().map(|(r, c, v)| (map(*r), map(*c), *v)).collect(),
            lin: lin
                .as_ref()
                .map(|(t, c)| (t.iter().map(|(i, v)| (map(*i), *v)).collect(), *c)),
        },
        FnRep::Poly { terms } => FnRep::Poly {
            terms: terms
                .iter()
                .map(|(ids, c)| (ids.iter().map(|i| map(*i)).collect(), *c))
                .collect(),
        },
    }
}

pub fn functions(tier: Tier) -> Vec<FnRep> {
    let t = tier == Tier::Thorough;
    let mut fs = vec![FnRep::Unset, FnRep::Const(-1.5), FnRep::Const(0.0), FnRep::Const(2.0)];
    fs.extend(gen_linear(&IDS3, &[0.0, 1.0, -0.5, 2.0], &[0.0, -1.5], if t { 3 } else { 2 }));
    fs.extend(gen_quadratic(
        &IDS3,
        &[0.0, 1.0, -0.5, 2.0],
        if t { 2 } else { 1 },
        &lin_parts_std(),
        true,
    ));
    if t {
        fs.extend(gen_quadratic(&IDS3, &[1.0, -0.5], 3, &[None, Some((vec![(2, -0.5), (1, 1.0)], 2.0))], true));
    } else {
        fs.extend(gen_quadratic(&IDS3, &[1.0, -0.5], 2, &[None, Some((vec![(2, -0.5), (1, 1.0)], 2.0))], true));
    }
    let monos = monomials(&IDS3, 4);
    fs.extend(gen_polynomial(&monos, &[0.0, 1.0, -0.5], 0));
    fs.extend(gen_polynomial(&monos, &[0.0, 1.0, -0.5], 1));
    if t {
        fs.extend(gen_polynomial(&monos, &[1.0, -0.5], 2));
    } else {
        fs.extend(gen_polynomial(&monomials(&IDS3, 3), &[1.0, -0.5], 2));
    }
    let few: Vec<Vec<u64>> = vec![
        vec![],
        vec![1],
        vec![7],
        vec![2, 1],
        vec![1, 2],
        vec![1, 1],
        vec![7, 1, 7],
        vec![2, 2, 2, 1],
        vec![1, 2, 7],
        vec![7, 7, 7, 7],
        vec![2, 7],
        vec![1, 2, 2],
    ];
    if t {
        fs.extend(gen_polynomial(&few, &[1.0, -0.5], 3));
    }
    fs
}

/// extra messages for the thorough tier: 4-term linear, 3-entry quadratic over all values, 3-term polynomials over more monomials
pub fn functions_deep() -> Vec<FnRep> {
    let mut fs = gen_linear(&IDS3, &[1.0, -0.5], &[0.0, -1.5], 4);
    fs.extend(gen_quadratic(&IDS3, &[0.0, 1.0, -0.5, 2.0], 3, &[None, Some((vec![(7, 2.0)], -1.5))], true).into_iter().filter(|f| matches!(f, FnRep::Quad { entries, .. } if entries.len() == 3)));
    let monos: Vec<Vec<u64>> = monomials(&IDS3, 4).into_iter().step_by(3).collect();
    fs.extend(gen_polynomial(&monos, &[1.0, -0.5], 3).into_iter().step_by(2));
    fs
}

/// Long functions of every variant (term counts around and beyond 32 and 64), with distinct ids and
/// with ids repeating with period 7; returned with the sorted list of ids they mention at most.
pub fn long_functions() -> Vec<(FnRep, Vec<u64>)> {
    let mut long: Vec<(FnRep, Vec<u64>)> = vec![];
    for n in [31usize, 32, 33, 40, 63, 64, 65, 100] {
        for period in [usize::MAX, 7] {
            let id = |i: usize| ((i % period) * 3 + 1) as u64;
            let co = |i: usize| [1.0, -0.5, 2.0, 0.25, -1.0][i % 5];
            let ids: Vec<u64> = (0..n).map(id).collect::<BTreeSet<u64>>().into_iter().collect();
            long.push((FnRep::Lin { terms: (0..n).rev().map(|i| (id(i), co(i))).collect(), c: 0.5 }, ids.clone()));
            long.push((FnRep::Quad { entries: (0..n).map(|i| (id(i), id((i * 5 + 1) % n), co(i))).collect(), lin: Some(((0..n).map(|i| (id(i), co(i + 1))).collect(), -1.0)) }, ids.clone()));
            long.push((FnRep::Poly { terms: (0..n).map(|i| ((0..(i % 4)).map(|k| id((i + k * 3) % n)).collect(), co(i))).collect() }, ids.clone()));
        }
    }
    long
}

pub fn run(ctx: &Ctx) -> Finish {
    let mut fs = functions(Tier::Thorough);
    if ctx.tier == Tier::Thorough {
        fs.extend(functions_deep());
    }
    let values = [-1.0, 0.0, 0.5, 2.0];
    ctx.note("functions", json!(fs.len()));
    ctx.par(fs.len(), |l, i| {
        let f = &fs[i];
        l.states += 1;
        for (k, st) in states_for(f, &IDS3, &values, 99).into_iter().enumerate() {
            let case = Case {
                f: f.clone(),
                state: st,
                exact: true,
            };
            if k == 3 && ctx.want_sample(i as u64) {
                l.samples.push((i as u64, json!(case)));
            }
            check_case(l, &case);
        }
    });
    // ID extremes: the same messages (small ones) under a renaming onto {0, u64::MAX, 3}
    let small: Vec<FnRep> = functions(Tier::Quick)
        .into_iter()
        .filter(|f| f.n_terms() <= 2)
        .map(|f| {
            rename(&f, &|i| match i {
                1 => 0,
                2 => u64::MAX,
                _ => 3,
            })
        })
        .collect();
    ctx.par(small.len(), |l, i| {
        let f = &small[i];
        l.states += 1;
        for st in states_for(f, &[0, u64::MAX, 3], &[-1.0, 0.5, 2.0], 98) {
            check_case(
                l,
                &Case {
                    f: f.clone(),
                    state: st,
                    exact: true,
                },
            );
        }
    });
    // Long functions (term counts around and beyond 32 and 64: blocked / chunked summation must not lose
    // a remainder): distinct ids and ids repeating with period 7, every variant; values by id; the states
    // lacking the id of the first / a middle / the last term
    let long = long_functions();
    ctx.note("long_functions", json!(long.len()));
    ctx.par(long.len(), |l, i| {
        let (f, ids) = &long[i];
        l.states += 1;
        let val = |id: u64, shift: u64| [-1.0, 0.5, 2.0, 0.0, 1.0][((id / 3 + shift) % 5) as usize];
        let occ: Vec<u64> = f.occurring_ids().into_iter().collect();
        let mut sts: Vec<Vec<(u64, f64)>> = (0..3).map(|sh| ids.iter().map(|id| (*id, val(*id, sh))).collect()).collect();
        for miss in [occ.first(), occ.get(occ.len() / 2), occ.last()].into_iter().flatten() {
            sts.push(ids.iter().filter(|id| *id != miss).map(|id| (*id, val(*id, 1))).collect());
        }
        for st in sts {
            check_case(l, &Case { f: f.clone(), state: st, exact: true });
        }
    });
    // Non-dyadic alphabet, rounding-bound comparison
    let mut nd = vec![FnRep::Const(0.1)];
    let nc = [0.1, -1.0 / 3.0, 1e-3, 1e6 + 0.5];
    nd.extend(gen_linear(&IDS3, &nc, &[0.0, 0.7], 2));
    nd.extend(gen_quadratic(&[1, 2], &nc, 2, &[None, Some((vec![(7, 0.1)], -0.3))], true));
    nd.extend(gen_polynomial(
        &vec![vec![], vec![1], vec![2, 1], vec![1, 1, 7], vec![7, 2, 1, 1]],
        &nc,
        2,
    ));
    ctx.par(nd.len(), |l, i| {
        let f = &nd[i];
        l.states += 1;
        for st in states_for(f, &IDS3, &[0.3, -7.7, 1e3], 99) {
            check_case(
                l,
                &Case {
                    f: f.clone(),
                    state: st,
                    exact: false,
                },
            );
        }
    });
    Finish {
        level: "model_checking",
        rule: "every function message of the bounded representation alphabet (all variants, unsorted/repeated terms, all 9 (row,col) positions, explicit zeros, absent/zero linear part) x every state over the value grid, plus the states lacking exactly one occurring id; each case also through evaluate_samples (the state under two sample ids beside a complete companion state); long functions of every variant with 31..100 terms (distinct and repeating ids); non-trivial = non-zero polynomial and non-empty state".into(),
        bounds: json!({
            "ids": [1,2,7], "id_extremes": [0, 3, "u64::MAX"],
            "linear_terms_max": ctx.tier.pick(3,4), "quadratic_entries_max": 3,
            "polynomial_terms_max": 3, "degree_max": 4,
            "values": values, "nondyadic": {"coefficients": nc, "values": [0.3,-7.7,1e3]}
        }),
        exhaustive: true,
    }
}

pub fn replay(l: &mut Local, case: &serde_json::Value) -> Result<(), String> {
    let c: Case = serde_json::from_value(case.clone()).map_err(|e| e.to_string())?;
    check_case(l, &c);
    Ok(())
}

//! C09 — penalty methods keep every constraint and build f + weighted squared violations.

use crate::engine::*;
use crate::refmodel::msg::*;
use crate::refmodel::poly::*;
use ommx::{v1, Evaluate};
use serde::{Deserialize, Serialize};
use serde_json::json;
use std::collections::{BTreeMap, BTreeSet};

#[derive(Clone, Debug, Serialize, Deserialize)]
pub struct Case {
    pub inst: InstRep,
    pub uniform: bool,
    /// weights (in order of the input's active constraints; one entry for uniform) and a state, for the evaluation part
    pub weights: Vec<f64>,
    pub state: Vec<(u64, f64)>,
}

pub fn check_case(l: &mut Local, case: &Case) {
    l.evaluations += 1;
    l.transitions += 1;
    let inst = &case.inst;
    let msg = inst.to_msg();
    let method = if case.uniform { "uniform_penalty_method" } else { "penalty_method" };
    if !inst.constraints.is_empty() {
        l.nontrivial += 1;
    }
    let pi = match sdk(|| if case.uniform { msg.clone().uniform_penalty_method() } else { msg.clone().penalty_method() }.map_err(|e| format!("{e:#}"))) {
        Err(p) => return l.violation(&format!("{method}/panic"), || json!(case), p),
        Ok(Err(e)) => return l.violation(&format!("{method}/error"), || json!(case), format!("{method} failed: {e}")),
        Ok(Ok(p)) => p,
    };
    // --- structure
    if !pi.constraints.is_empty() {
        l.violation(&format!("{method}/active-constraints-remain"), || json!(case), format!("{} active constraints remain", pi.constraints.len()));
    }
    let mut expected: BTreeMap<u64, (i32, Poly)> = BTreeMap::new();
    for c in inst.constraints.iter().chain(inst.removed.iter().map(|r| &r.constraint)) {
        expected.insert(c.id, (c.equality, c.poly()));
    }
    let mut got: BTreeMap<u64, (i32, Poly)> = BTreeMap::new();
    let mut dup = false;
    for r in &pi.removed_constraints {
        match removed_view(r) {
            Ok((cv, _, _)) => {
                if got.insert(cv.id, (cv.equality, cv.poly)).is_some() {
                    dup = true;
                }
            }
            Err(e) => return l.violation(&format!("{method}/unreadable"), || json!(case), e),
        }
    }
    if dup {
        l.violation(&format!("{method}/constraint-listed-twice"), || json!(case), "a constraint id appears twice among the removed constraints".into());
    }
    let lost_removed: Vec<u64> = inst.removed.iter().map(|r| r.constraint.id).filter(|i| !got.contains_key(i)).collect();
    let lost_active: Vec<u64> = inst.constraints.iter().map(|c| c.id).filter(|i| !got.contains_key(i)).collect();
    if !lost_removed.is_empty() {
        l.violation(
            &format!("{method}/pre-removed-constraint-lost"),
            || json!(case),
            format!("constraints {lost_removed:?} were already removed in the input and are missing from the output (output keeps {:?})", got.keys().collect::<Vec<_>>()),
        );
    }
    if !lost_active.is_empty() {
        l.violation(&format!("{method}/active-constraint-lost"), || json!(case), format!("active constraints {lost_active:?} are missing from the output's removed constraints"));
    }
    let extra: Vec<u64> = got.keys().filter(|i| !expected.contains_key(i)).cloned().collect();
    if !extra.is_empty() {
        l.violation(&format!("{method}/unknown-constraint"), || json!(case), format!("output lists constraints {extra:?} that the input does not have"));
    }
    for (id, (eq, p)) in &got {
        if let Some((eeq, ep)) = expected.get(id) {
            if eq != eeq || p != ep {
                l.violation(
                    &format!("{method}/constraint-changed"),
                    || json!(case),
                    format!("constraint {id}: equality {eq} function {} ; input had equality {eeq} function {}", p.show(), ep.show()),
                );
            }
        }
    }
    // variables, sense, dependencies carried over
    let in_view = inst_view_rep(inst);
    if pi.decision_variables != in_view.vars {
        l.violation(&format!("{method}/variables-changed"), || json!(case), "decision variables differ from the input's".into());
    }
    if pi.sense != inst.sense {
        l.violation(&format!("{method}/sense-changed"), || json!(case), format!("sense {} -> {}", inst.sense, pi.sense));
    }
    let deps: Result<BTreeMap<u64, Poly>, String> = pi.decision_variable_dependency.iter().map(|(k, f)| Ok((*k, poly_of_function(f)?))).collect();
    if deps.as_ref().ok() != Some(&in_view.dependencies) {
        l.violation(&format!("{method}/dependencies-changed"), || json!(case), format!("dependencies {deps:?}, input had {:?}", in_view.dependencies));
    }
    // --- parameters
    let var_ids: BTreeSet<u64> = inst.vars.iter().map(|v| v.id).collect();
    let par_ids: Vec<u64> = pi.parameters.iter().map(|p| p.id).collect();
    let par_set: BTreeSet<u64> = par_ids.iter().cloned().collect();
    if par_set.len() != par_ids.len() {
        l.violation(&format!("{method}/parameter-ids-repeat"), || json!(case), format!("parameter ids {par_ids:?}"));
    }
    let clash: Vec<u64> = par_set.intersection(&var_ids).cloned().collect();
    if !clash.is_empty() {
        l.violation(
            &format!("{method}/parameter-id-collides-with-variable"),
            || json!(case),
            format!("weight parameter ids {par_ids:?} collide with decision variable ids {var_ids:?} at {clash:?}"),
        );
        return;
    }
    // weight polynomial per active constraint
    let f = inst.objective_poly();
    let mut want = f.clone();
    let mut weight_ids: Vec<u64> = vec![];
    if case.uniform {
        if pi.parameters.len() != 1 {
            return l.violation(&format!("{method}/parameter-count"), || json!(case), format!("{} parameters, expected exactly one", pi.parameters.len()));
        }
        let w = Poly::var(pi.parameters[0].id);
        weight_ids.push(pi.parameters[0].id);
        let mut s = Poly::zero();
        for c in &inst.constraints {
            let g = c.poly();
            s = s.add(&g.mul(&g));
        }
        want = want.add(&w.mul(&s));
    } else {
        if pi.parameters.len() != inst.constraints.len() {
            l.violation(
                &format!("{method}/parameter-count"),
                || json!(case),
                format!("{} parameters for {} penalised constraints", pi.parameters.len(), inst.constraints.len()),
            );
        }
        for c in &inst.constraints {
            let tagged: Vec<&v1::Parameter> = pi.parameters.iter().filter(|p| p.subscripts == vec![c.id as i64]).collect();
            if tagged.len() != 1 {
                return l.violation(
                    &format!("{method}/parameter-not-tagged-with-constraint"),
                    || json!(case),
                    format!("constraint {} has {} weight parameters tagged with its id (parameters: {:?})", c.id, tagged.len(), pi.parameters.iter().map(|p| (p.id, p.subscripts.clone())).collect::<Vec<_>>()),
                );
            }
            let g = c.poly();
            weight_ids.push(tagged[0].id);
            want = want.add(&Poly::var(tagged[0].id).mul(&g.mul(&g)));
        }
    }
    l.outcome(&want);
    let obj = match poly_of_opt_function(&pi.objective) {
        Ok(p) => p,
        Err(e) => return l.violation(&format!("{method}/unreadable"), || json!(case), e),
    };
    if obj != want {
        l.violation(
            &format!("{method}/objective-identity"),
            || json!(case),
            format!("objective is {} ; f + weighted squared violations is {} (weights = parameters {weight_ids:?})", obj.show(), want.show()),
        );
    }
    // --- evaluation through with_parameters + evaluate
    if !case.weights.is_empty() && case.weights.len() >= weight_ids.len() {
        l.transitions += 2;
        let mut ps = v1::Parameters::default();
        let mut qs_: QState = qstate(&case.state);
        for (id, w) in weight_ids.iter().zip(&case.weights) {
            ps.entries.insert(*id, *w);
            qs_.insert(*id, q(*w));
        }
        let Some(exact) = want.eval(&qs_) else { return };
        let st = mk_state(&case.state);
        match sdk(|| pi.clone().with_parameters(ps).and_then(|i| i.evaluate(&st)).map_err(|e| format!("{e:#}"))) {
            Err(p) => l.violation(&format!("{method}/evaluate-panic"), || json!(case), p),
            Ok(Err(e)) => l.violation(&format!("{method}/evaluate-error"), || json!(case), format!("with_parameters + evaluate failed: {e}")),
            Ok(Ok((sol, _))) => {
                if q_opt(sol.objective).as_ref() != Some(&exact) {
                    l.violation(
                        &format!("{method}/objective-value"),
                        || json!(case),
                        format!("with weights {:?} at {:?}: objective {} , exact f + penalties = {}", case.weights, case.state, sol.objective, qs(&exact)),
                    );
                }
            }
        }
    }
}

fn objectives() -> Vec<Option<FnRep>> {
    vec![
        None,
        Some(FnRep::Const(2.0)),
        Some(FnRep::Lin { terms: vec![(1, 1.0)], c: -0.5 }),
        Some(FnRep::Lin { terms: vec![(2, -0.5), (1, 2.0), (2, 1.0)], c: 0.0 }),
        Some(FnRep::Quad { entries: vec![(2, 1, 1.0)], lin: None }),
        Some(FnRep::Quad { entries: vec![(1, 1, -0.5), (1, 2, 2.0)], lin: Some((vec![(2, 1.0)], 0.5)) }),
        Some(FnRep::Poly { terms: vec![(vec![1, 2, 1], -0.5), (vec![], 1.0)] }),
        Some(FnRep::Poly { terms: vec![] }),
        Some(FnRep::Lin { terms: vec![], c: 0.0 }),
        Some(FnRep::Poly { terms: vec![(vec![2], 1.0), (vec![1, 1, 1, 2], 2.0)] }),
        Some(FnRep::Poly { terms: vec![(vec![], 2.0), (vec![1], 1.0), (vec![], -0.5)] }),
        Some(FnRep::Lin { terms: (0..40usize).map(|i| (1 + (i % 2) as u64, [1.0, -0.5, 2.0][i % 3])).collect(), c: 0.5 }),
    ]
}

fn con_functions() -> Vec<Option<FnRep>> {
    vec![
        None,
        Some(FnRep::Const(-1.5)),
        Some(FnRep::Lin { terms: vec![(1, 1.0), (2, -0.5)], c: 1.0 }),
        Some(FnRep::Quad { entries: vec![(2, 1, 1.0)], lin: Some((vec![(1, -1.0)], 0.0)) }),
        Some(FnRep::Poly { terms: vec![(vec![], 1.0), (vec![2], 1.0), (vec![], -2.5), (vec![2], -0.5)] }),
        Some(FnRep::Poly { terms: vec![(vec![], 1.0), (vec![], 2.0)] }),
    ]
}

pub fn run(ctx: &Ctx) -> Finish {
    // the full product takes under 10 s, so both tiers run it
    let t = true;
    let objs = objectives();
    let cfs = con_functions();
    let pool: Vec<(i32, Option<FnRep>)> = cfs.iter().flat_map(|f| [(EQ_ZERO, f.clone()), (LE_ZERO, f.clone())]).collect();
    let pool3: Vec<(i32, Option<FnRep>)> = vec![pool[4].clone(), pool[7].clone(), pool[3].clone()];
    let active_ids = [5u64, 3, 40];
    let mut active_lists: Vec<Vec<ConRep>> = vec![];
    for k in 0..=3usize {
        let p = if k == 3 { &pool3 } else { &pool };
        for s in sequences(p.len(), k) {
            active_lists.push(s.iter().enumerate().map(|(i, pi)| {
                let c = ConRep::new(active_ids[i], p[*pi].0, p[*pi].1.clone());
                if i == 1 { c.with_meta("m") } else { c }
            }).collect());
        }
    }
    let removed_ids = [77u64, 2];
    let mut removed_lists: Vec<Vec<RemRep>> = vec![];
    for k in 0..=2usize {
        for s in sequences(cfs.len(), k) {
            removed_lists.push(s.iter().enumerate().map(|(i, fi)| RemRep {
                constraint: ConRep::new(removed_ids[i], if (fi + i) % 2 == 0 { LE_ZERO } else { EQ_ZERO }, cfs[*fi].clone()),
                reason: ["earlier", "uniform_penalty_method", "penalty_method"][(i + fi + k) % 3].into(),
                parameters: vec![("a".into(), "b".into())],
            }).collect());
        }
    }
    // variable layouts: non-contiguous ids, maximum not last; two layouts so that id schemes based on
    // the list length or on the last element collide in at least one of them
    let layouts: Vec<Vec<u64>> = vec![vec![9, 1, 2, 8], vec![9, 1, 2, 4]];
    let envs: Vec<(usize, bool, bool, i32)> = {
        let mut v = vec![];
        for (li, _) in layouts.iter().enumerate() {
            for dep in [false, true] {
                for hints in [false, true] {
                    for sense in [SENSE_MIN, SENSE_MAX] {
                        if !t && (usize::from(dep) + usize::from(hints) + li + sense as usize) % 2 == 0 {
                            continue;
                        }
                        v.push((li, dep, hints, sense));
                    }
                }
            }
        }
        v
    };
    let n = objs.len() * active_lists.len() * removed_lists.len();
    ctx.note("instances", json!(n * envs.len()));
    ctx.note("dimensions", json!({"objectives": objs.len(), "active_lists": active_lists.len(), "removed_lists": removed_lists.len(), "environments": envs.len()}));
    let weight_grid = [0.0, 1.0, -0.5, 2.0];
    ctx.par(n, |l, i| {
        let o = &objs[i % objs.len()];
        let a = &active_lists[(i / objs.len()) % active_lists.len()];
        let r = &removed_lists[i / (objs.len() * active_lists.len())];
        for (ei, (li, dep, hints, sense)) in envs.iter().enumerate() {
            let vars: Vec<VarRep> = layouts[*li]
                .iter()
                .map(|id| if *id == 2 { VarRep::new(2, KIND_INTEGER, Some((-2.0, 3.0))) } else { VarRep::new(*id, KIND_CONTINUOUS, None) })
                .collect();
            let mut inst = InstRep {
                sense: *sense,
                objective: o.clone(),
                vars,
                constraints: a.clone(),
                removed: r.clone(),
                ..Default::default()
            };
            if *dep {
                inst.dependencies.push((9, FnRep::Lin { terms: vec![(1, 1.0), (2, 2.0)], c: 0.0 }));
            }
            if *hints && !a.is_empty() {
                inst.one_hot.push((a[0].id, vec![1, 2]));
            }
            l.states += 1;
            for uniform in [false, true] {
                // weights: rotate through the grid deterministically so that every value meets every position
                let k = if uniform { 1 } else { a.len() };
                let weights: Vec<f64> = (0..k).map(|j| weight_grid[(i + j + ei) % 4]).collect();
                let state = vec![(1, [0.5, -1.0, 2.0][i % 3]), (2, [2.0, -1.0][(i / 3) % 2])];
                let case = Case { inst: inst.clone(), uniform, weights, state };
                if ctx.want_sample((i * 16 + ei) as u64) {
                    l.samples.push(((i * 16 + ei) as u64, json!(case)));
                }
                check_case(l, &case);
            }
        }
    });
    // constraint ids at the top of the id space (ids are opaque: nothing may be computed from them)
    ctx.seq(|l| {
        for (oi, o) in objs.iter().enumerate() {
            for (k, pa) in pool.iter().enumerate() {
                let pb = &pool[(k * 5 + 3) % pool.len()];
                let inst = InstRep {
                    sense: if (oi + k) % 2 == 0 { SENSE_MIN } else { SENSE_MAX },
                    objective: o.clone(),
                    vars: layouts[k % 2].iter().map(|id| VarRep::new(*id, KIND_CONTINUOUS, None)).collect(),
                    constraints: vec![ConRep::new(u64::MAX - 1, pa.0, pa.1.clone()), ConRep::new(3, pb.0, pb.1.clone()).with_meta("m")],
                    removed: vec![RemRep { constraint: ConRep::new(u64::MAX, LE_ZERO, cfs[2].clone()), reason: "earlier".into(), parameters: vec![] }],
                    ..Default::default()
                };
                for uniform in [false, true] {
                    l.states += 1;
                    let weights = if uniform { vec![2.0] } else { vec![-0.5, 2.0] };
                    check_case(l, &Case { inst: inst.clone(), uniform, weights, state: vec![(1, 0.5), (2, -1.0)] });
                }
            }
        }
    });
    // variable ids beyond 32 bits (ids are opaque 64-bit numbers: products of linear functions must keep them
    // whole); the low halves of the large ids are themselves defined variables, so a truncated id is not
    // rejected as undefined
    ctx.seq(|l| {
        const B1: u64 = (1 << 32) + 1;
        const B2: u64 = (1 << 33) + 2;
        let up = |i: u64| match i { 1 => B1, 2 => B2, o => o };
        let big_layouts: [Vec<u64>; 2] = [vec![(1 << 40) + 9, B1, B2, 1, 2, 8], vec![B2, 2, 1, B1]];
        for (oi, o) in objs.iter().enumerate() {
            for (k, pa) in pool.iter().enumerate() {
                let pb = &pool[(k * 5 + 3) % pool.len()];
                let ren = |f: &Option<FnRep>| f.as_ref().map(|f| super::c01::rename(f, &up));
                let inst = InstRep {
                    sense: if (oi + k) % 2 == 0 { SENSE_MIN } else { SENSE_MAX },
                    objective: ren(o),
                    vars: big_layouts[(oi + k) % 2].iter().map(|id| VarRep::new(*id, KIND_CONTINUOUS, None)).collect(),
                    constraints: vec![ConRep::new(5, pa.0, ren(&pa.1)), ConRep::new(3, pb.0, ren(&pb.1)).with_meta("m")],
                    removed: vec![RemRep { constraint: ConRep::new(77, LE_ZERO, ren(&cfs[2])), reason: "earlier".into(), parameters: vec![] }],
                    ..Default::default()
                };
                for uniform in [false, true] {
                    l.states += 1;
                    let weights = if uniform { vec![2.0] } else { vec![-0.5, 2.0] };
                    let state = vec![(B1, [0.5, -1.0, 2.0][k % 3]), (B2, [2.0, -1.0][oi % 2]), (1, 0.25), (2, -3.0)];
                    check_case(l, &Case { inst: inst.clone(), uniform, weights, state });
                }
            }
        }
    });
    // full weight grid x states on a small set of instances
    ctx.seq(|l| {
        let a = &active_lists[active_lists.len() - 5];
        for o in objs.iter().take(6) {
            let inst = InstRep {
                sense: SENSE_MIN,
                objective: o.clone(),
                vars: layouts[0].iter().map(|id| VarRep::new(*id, KIND_CONTINUOUS, None)).collect(),
                constraints: a.clone(),
                removed: removed_lists[3].clone(),
                ..Default::default()
            };
            odometer(&[4, 4, 4, 3, 2], |d| {
                let weights = vec![weight_grid[d[0]], weight_grid[d[1]], weight_grid[d[2]]];
                let state = vec![(1, [0.5, -1.0, 2.0][d[3]]), (2, [2.0, -1.0][d[4]])];
                for uniform in [false, true] {
                    check_case(l, &Case { inst: inst.clone(), uniform, weights: weights.clone(), state: state.clone() });
                }
            });
        }
    });
    Finish {
        level: "model_checking",
        rule: "every instance of the product objective(10) x active constraint lists (0..3, functions absent/constant/linear/quadratic, both equalities) x pre-existing removed lists (0..2) x {variable-id layout, dependency, hints, sense} through both penalty methods; oracle: no active constraint left, every input constraint (already-removed ones included) kept with id/function/equality, fresh tagged weight parameters not colliding with variable ids, objective == f + sum w_c g_c^2 as a polynomial identity in (x, w), plus with_parameters+evaluate on a weight/state grid; non-trivial = at least one active constraint".into(),
        bounds: json!({"active_max": 3, "removed_max": 2, "weight_grid": weight_grid, "variable_id_layouts": layouts, "wide_variable_ids": ["2^32+1", "2^33+2", "2^40+9"]}),
        exhaustive: t,
    }
}

pub fn replay(l: &mut Local, case: &serde_json::Value) -> Result<(), String> {
    let c: Case = serde_json::from_value(case.clone()).map_err(|e| e.to_string())?;
    check_case(l, &c);
    Ok(())
}

//! C05 — a Solution faithfully reports the evaluated problem.

use crate::engine::*;
use crate::refmodel::inst::*;
use crate::refmodel::msg::*;
use ommx::Evaluate;
use serde::{Deserialize, Serialize};
use serde_json::json;

#[derive(Clone, Debug, Serialize, Deserialize)]
pub struct Case {
    pub inst: InstRep,
    pub state: Vec<(u64, f64)>,
    pub bit_exact: bool,
    /// values fixed through the real `partial_evaluate` before evaluating (history: "previously fixed values")
    #[serde(default)]
    pub pre_fix: Vec<(u64, f64)>,
}

pub fn check_case(l: &mut Local, case: &Case) {
    // Own the one real nondeterminism: run under every iteration order of the dependency map (hook H1).
    let n = case.inst.dependencies.len();
    if n >= 2 && n <= 4 {
        for perm in permutations(n) {
            ommx::verif::set_dependency_order(Some(perm));
            check_case_once(l, case);
        }
        ommx::verif::set_dependency_order(None);
    } else {
        check_case_once(l, case);
    }
}

fn check_case_once(l: &mut Local, case: &Case) {
    l.evaluations += 1;
    l.transitions += 1;
    let mut msg = case.inst.to_msg();
    let st = mk_state(&case.state);
    let mut inst_exp = case.inst.clone();
    let mut full_state = case.state.clone();
    if !case.pre_fix.is_empty() {
        let fixed = mk_state(&case.pre_fix);
        if let Err(e) = sdk(|| msg.partial_evaluate(&fixed).map_err(|e| format!("{e:#}"))).and_then(|r| r) {
            return l.violation("history/partial_evaluate-error", || json!(case), e);
        }
        for (id, x) in &case.pre_fix {
            if let Some(v) = inst_exp.vars.iter_mut().find(|v| v.id == *id) {
                v.substituted = Some(*x);
            }
            // a value the caller still supplies for a fixed variable is superseded by the fixed one (the
            // objective and constraints no longer mention the variable, so only this keeps the reported
            // state consistent with the reported values)
            full_state.retain(|(i, _)| i != id);
            full_state.push((*id, *x));
        }
    }
    let expected = ref_evaluate(&inst_exp, &full_state);
    let got = sdk(|| msg.evaluate(&st).map_err(|e| format!("{e:#}")));
    let got = match got {
        Err(p) => {
            l.violation("panic", || json!(case), format!("Instance::evaluate panicked: {p}"));
            return;
        }
        Ok(g) => g,
    };
    match (&expected, got) {
        (Err(RefErr::TooClose(_)), _) => {
            l.skipped_close += 1;
        }
        (Err(e), Ok(_)) => {
            l.outcome(&format!("{e:?}"));
            let kind = match e {
                RefErr::OutOfBound(_) => "out-of-bound-state-accepted",
                RefErr::MissingUsed(_) => "missing-used-variable-accepted",
                RefErr::Dependency(_) => "unevaluable-dependency-accepted",
                RefErr::TooClose(_) => unreachable!(),
            };
            l.violation(kind, || json!(case), format!("Instance::evaluate returned a Solution, expected an error: {e:?}"));
        }
        (Err(e), Err(_)) => {
            l.outcome(&format!("{e:?}"));
            l.nontrivial += 1;
        }
        (Ok(exp), Err(e)) => {
            l.outcome(&(&exp.objective, exp.constraints.len()));
            l.violation(
                "valid-state-rejected",
                || json!(case),
                format!("Instance::evaluate failed on a valid state: {e}"),
            );
        }
        (Ok(exp), Ok((sol, _used))) => {
            l.outcome(&(&exp.objective, exp.constraints.iter().map(|c| c.value.clone()).collect::<Vec<_>>(), &exp.state));
            if !exp.constraints.is_empty() {
                l.nontrivial += 1;
            }
            let with_history = !case.pre_fix.is_empty();
            for (sig, detail) in compare_solution_opts(&sol, exp, &inst_exp, case.bit_exact, !with_history) {
                l.violation(&if with_history { format!("history/{sig}") } else { sig }, || json!(case), detail);
            }
        }
    }
}

pub const THRESH: [f64; 8] = [-1.0, -2e-6, -5e-7, 0.0, 5e-7, 1e-6, 2e-6, 1.0];

/// (kind, bound) combinations of DESIGN.md section 4
pub fn kind_bounds() -> Vec<(i32, Option<(f64, f64)>)> {
    let inf = f64::INFINITY;
    vec![
        (KIND_CONTINUOUS, None),
        (KIND_INTEGER, Some((-2.0, 3.0))),
        (KIND_BINARY, None),
        (KIND_BINARY, Some((0.0, 1.0))),
        (KIND_INTEGER, None),
        (KIND_INTEGER, Some((1.0, inf))),
        (KIND_INTEGER, Some((-inf, -1.0))),
        (KIND_INTEGER, Some((2.0, 2.0))),
        (KIND_CONTINUOUS, Some((0.0, 1.0))),
        (KIND_CONTINUOUS, Some((-2.0, 3.0))),
        (KIND_CONTINUOUS, Some((1.0, inf))),
        (KIND_CONTINUOUS, Some((-inf, -1.0))),
        (KIND_CONTINUOUS, Some((-inf, inf))),
        (KIND_CONTINUOUS, Some((2.0, 2.0))),
        (KIND_CONTINUOUS, Some((-3.0, -0.5))),
        // a binary variable keeps an explicit bound: fixed at 1 / at 0
        (KIND_BINARY, Some((1.0, 1.0))),
        (KIND_BINARY, Some((0.0, 0.0))),
    ]
}

fn con_pool_full() -> Vec<(i32, Option<FnRep>)> {
    let mut v = vec![];
    for eq in [EQ_ZERO, LE_ZERO] {
        for c in THRESH {
            v.push((eq, Some(FnRep::Lin { terms: vec![(2, 1.0)], c })));
            v.push((eq, Some(FnRep::Const(c))));
        }
        v.push((eq, None));
        v.push((eq, Some(FnRep::Unset)));
    }
    v
}

fn con_pool_small() -> Vec<(i32, Option<FnRep>)> {
    vec![
        (LE_ZERO, Some(FnRep::Lin { terms: vec![(2, 1.0)], c: 5e-7 })),
        (LE_ZERO, Some(FnRep::Lin { terms: vec![(2, 1.0)], c: 1e-6 })),
        (EQ_ZERO, Some(FnRep::Lin { terms: vec![(2, 1.0)], c: -5e-7 })),
        (EQ_ZERO, Some(FnRep::Const(-2e-6))),
    ]
}

/// All (active, removed) constraint lists: full pool when there is a single constraint, the
/// 4-element pool (feasible/infeasible x both equalities) when there are several.
fn constraint_configs(max_each: usize) -> Vec<(Vec<ConRep>, Vec<RemRep>)> {
    let active_ids = [7u64, 3];
    let removed_ids = [40u64, 1];
    let mut out = vec![];
    for a in 0..=max_each {
        for r in 0..=max_each {
            let pool = if a + r == 1 { con_pool_full() } else { con_pool_small() };
            for seq in sequences(pool.len(), a + r) {
                let mut act = vec![];
                let mut rem = vec![];
                for (k, pi) in seq.iter().enumerate() {
                    let (eq, f) = pool[*pi].clone();
                    if k < a {
                        let mut c = ConRep::new(active_ids[k], eq, f);
                        if k % 2 == 0 {
                            c = c.with_meta("a");
                        }
                        act.push(c);
                    } else {
                        let j = k - a;
                        let mut c = ConRep::new(removed_ids[j], eq, f);
                        if j % 2 == 1 {
                            c = c.with_meta("r");
                        }
                        rem.push(RemRep {
                            constraint: c,
                            // the empty string is a legal reason: the constraint is still reported as removed
                            reason: if (j + *pi) % 2 == 1 { String::new() } else { format!("reason-{j}") },
                            parameters: if j == 0 { vec![("p".into(), "q".into())] } else { vec![] },
                        });
                    }
                }
                out.push((act, rem));
            }
        }
    }
    out
}

fn objectives() -> Vec<Option<FnRep>> {
    vec![
        None,
        Some(FnRep::Const(2.0)),
        Some(FnRep::Lin { terms: vec![(1, 1.0)], c: -0.5 }),
        Some(FnRep::Quad { entries: vec![(2, 1, 1.0)], lin: Some((vec![(1, 2.0)], 0.0)) }),
        Some(FnRep::Poly { terms: vec![(vec![1, 2, 1], -0.5), (vec![], 1.0)] }),
        // representation quirks: split constant, explicit zeros, degree 0 with several constant monomials
        Some(FnRep::Poly { terms: vec![(vec![], 2.0), (vec![1], 1.0), (vec![], -0.5), (vec![2, 1], 0.0)] }),
        Some(FnRep::Poly { terms: vec![(vec![], 1.0), (vec![], 2.0)] }),
        // 40 terms over two ids (longer than any block a chunked summation would use)
        Some(FnRep::Lin { terms: (0..40usize).map(|i| (1 + (i % 2) as u64, [1.0, -0.5, 2.0][i % 3])).collect(), c: 0.5 }),
    ]
}

#[derive(Clone)]
struct VarCfg {
    x1: (i32, Option<(f64, f64)>),
    x7: Option<(i32, Option<(f64, f64)>)>,
    prefixed: bool,
    dep: u8,
}

fn build(vc: &VarCfg, obj: &Option<FnRep>, cons: &(Vec<ConRep>, Vec<RemRep>)) -> InstRep {
    let mut vars = vec![VarRep::new(1, vc.x1.0, vc.x1.1), VarRep::new(2, KIND_CONTINUOUS, None)];
    if let Some((k, b)) = vc.x7 {
        let mut v = VarRep::new(7, k, b);
        v.name = Some("irrelevant".into());
        vars.push(v);
    }
    if vc.prefixed {
        let mut v = VarRep::new(8, KIND_CONTINUOUS, None);
        v.substituted = Some(1.5);
        vars.push(v);
    }
    let mut deps = vec![];
    match vc.dep {
        1 => {
            vars.push(VarRep::new(9, KIND_CONTINUOUS, None));
            deps.push((9, FnRep::Lin { terms: vec![(1, 2.0)], c: 1.0 }));
        }
        2 => {
            // a chain, listed so that the dependent-on-dependent comes first
            vars.push(VarRep::new(10, KIND_CONTINUOUS, None));
            vars.push(VarRep::new(9, KIND_CONTINUOUS, Some((5.0, 50.0))));
            deps.push((10, FnRep::Lin { terms: vec![(9, 2.0)], c: 0.0 }));
            // x9 = x1 + 3 leaves the declared bound [5, 50] of x9 for most x1: a bound constrains supplied values only
            deps.push((9, FnRep::Lin { terms: vec![(1, 1.0)], c: 3.0 }));
        }
        3 => {
            // quadratic dependency on x2 and x1
            vars.push(VarRep::new(9, KIND_CONTINUOUS, None));
            deps.push((9, FnRep::Quad { entries: vec![(2, 2, 1.0)], lin: Some((vec![(1, 2.0)], 0.0)) }));
        }
        _ => {}
    }
    // The decision-variable, constraint and removed-constraint lists are sets: half of the family
    // lists them in reverse order (descending ids for the variables).
    let (mut active, mut removed) = (cons.0.clone(), cons.1.clone());
    if (vc.dep as usize + active.len() + usize::from(vc.prefixed)) % 2 == 1 {
        vars.reverse();
        active.reverse();
        removed.reverse();
    }
    InstRep {
        sense: SENSE_MIN,
        objective: obj.clone(),
        vars,
        constraints: active,
        removed,
        dependencies: deps,
        ..Default::default()
    }
}

const GRID: [f64; 4] = [-1.0, 0.0, 0.5, 2.0];

fn x1_values(kind: i32, b: (f64, f64), edges: bool) -> Vec<(f64, bool)> {
    // (value, dyadic?)
    let mut v: Vec<(f64, bool)> = GRID
        .iter()
        .filter(|x| b.0 <= **x && **x <= b.1 && (kind == KIND_CONTINUOUS || x.fract() == 0.0))
        .map(|x| (*x, true))
        .collect();
    if v.is_empty() {
        v.push((if b.0.is_finite() { b.0 } else { b.1 }, true));
    }
    if edges {
        if b.1.is_finite() {
            v.push((b.1, true));
            v.push((b.1 + 5e-8, false));
            v.push((b.1 + 2e-7, false));
        }
        if b.0.is_finite() {
            v.push((b.0, true));
            v.push((b.0 - 5e-8, false));
            v.push((b.0 - 2e-7, false));
        }
    }
    v
}

fn dyadic_consts(inst: &InstRep) -> bool {
    let ok = |f: &Option<FnRep>| match f {
        Some(FnRep::Lin { c, .. }) => c.abs() >= 0.25 || *c == 0.0,
        Some(FnRep::Const(c)) => c.abs() >= 0.25 || *c == 0.0,
        _ => true,
    };
    inst.constraints.iter().all(|c| ok(&c.function)) && inst.removed.iter().all(|r| ok(&r.constraint.function))
}

fn states(inst: &InstRep, vc: &VarCfg, edges: bool) -> Vec<(Vec<(u64, f64)>, bool)> {
    let x1 = inst.var(1).unwrap();
    let b = x1.eff_bound();
    let dy_consts = dyadic_consts(inst);
    let mut out = vec![];
    for (v1v, dy) in x1_values(x1.kind, b, edges) {
        for x2 in [0.0, 2.0] {
            out.push((vec![(1, v1v), (2, x2)], dy && (x2 == 0.0 || dy_consts)));
        }
    }
    let base1 = x1_values(x1.kind, b, false)[0].0;
    // missing variables
    out.push((vec![(2, 0.0)], true));
    out.push((vec![(1, base1)], true));
    out.push((vec![], true));
    // extra undefined id
    out.push((vec![(1, base1), (2, 0.0), (99, 4.0)], true));
    // a (stale, in-bound) value supplied for a dependent variable: the dependent value is what is reported
    // (only without a chain: when another dependent variable is computed from this one, the SDK's result
    // depends on the iteration order of its dependency map - see DESIGN 10.4, observation after round 7)
    if vc.dep == 1 || vc.dep == 3 {
        out.push((vec![(1, base1), (2, 0.0), (9, 6.0)], true));
    }
    if let Some((k, bb)) = vc.x7 {
        let vb = VarRep::new(7, k, bb).eff_bound();
        for (v7, dy) in x1_values(k, vb, true) {
            out.push((vec![(1, base1), (2, 0.0), (7, v7)], dy));
        }
    }
    out
}

pub fn run(ctx: &Ctx) -> Finish {
    // the full product takes ~20 s, so both tiers run it
    let t = true;
    let kbs = kind_bounds();
    let objs = objectives();
    // Enumeration 1: constraint/flag focus
    let cons1 = constraint_configs(2);
    let mut vcs1 = vec![];
    for x1 in [kbs[0], kbs[1], kbs[3]] {
        for x7 in [None, Some(kbs[11])] {
            for prefixed in [false, true] {
                for dep in 0..=3u8 {
                    vcs1.push(VarCfg { x1, x7, prefixed, dep });
                }
            }
        }
    }
    if !t {
        vcs1.retain(|v| !(v.x7.is_some() && v.prefixed && v.dep == 1));
    }
    let n1 = vcs1.len() * cons1.len() * objs.len();
    ctx.note("enumeration1_instances", json!(n1));
    ctx.par(n1, |l, i| {
        let vc = &vcs1[i % vcs1.len()];
        let cons = &cons1[(i / vcs1.len()) % cons1.len()];
        let obj = &objs[i / (vcs1.len() * cons1.len())];
        let inst = build(vc, obj, cons);
        l.states += 1;
        for (k, (st, dy)) in states(&inst, vc, false).into_iter().enumerate() {
            let case = Case { inst: inst.clone(), state: st, bit_exact: dy, pre_fix: vec![] };
            if k == 1 && ctx.want_sample(i as u64) {
                l.samples.push((i as u64, json!(case)));
            }
            check_case(l, &case);
        }
    });
    // Enumeration 2: bound / fill / dependency focus
    let cons2: Vec<(Vec<ConRep>, Vec<RemRep>)> = {
        let all = constraint_configs(1);
        // none; one active (x2+5e-7 <= 0); one removed; one active + one removed
        all.into_iter()
            .filter(|(a, r)| {
                let small = |c: &ConRep| matches!(&c.function, Some(FnRep::Lin { c, .. }) if *c == 5e-7 || *c == 1e-6) && c.equality == LE_ZERO;
                a.iter().all(small) && r.iter().all(|r| small(&r.constraint))
            })
            .collect()
    };
    let mut vcs2 = vec![];
    let x7s: Vec<Option<(i32, Option<(f64, f64)>)>> =
        std::iter::once(None).chain(kbs.iter().map(|k| Some(*k))).collect();
    for x1 in &kbs {
        for x7 in &x7s {
            for prefixed in [false, true] {
                for dep in 0..=3u8 {
                    if !t && x7.is_some() && (prefixed || dep == 1) && *x1 != kbs[0] && *x1 != kbs[1] {
                        continue;
                    }
                    vcs2.push(VarCfg { x1: *x1, x7: *x7, prefixed, dep });
                }
            }
        }
    }
    let objs2 = [objs[0].clone(), objs[3].clone()];
    let n2 = vcs2.len() * cons2.len() * objs2.len();
    ctx.note("enumeration2_instances", json!(n2));
    ctx.par(n2, |l, i| {
        let vc = &vcs2[i % vcs2.len()];
        let cons = &cons2[(i / vcs2.len()) % cons2.len()];
        let obj = &objs2[i / (vcs2.len() * cons2.len())];
        let inst = build(vc, obj, cons);
        l.states += 1;
        for (st, dy) in states(&inst, vc, true) {
            check_case(l, &Case { inst: inst.clone(), state: st, bit_exact: dy, pre_fix: vec![] });
        }
    });
    // Enumeration 3: previously fixed values. x2 (and / or x1) is fixed through the real partial_evaluate on
    // instances whose variable list is in every order, then the rest is evaluated.
    let cons3 = constraint_configs(1);
    let orders = permutations(3);
    let n3 = cons3.len() * orders.len();
    ctx.note("enumeration3_histories", json!(n3 * 7 * 5));
    ctx.par(n3, |l, i| {
        let cons = &cons3[i % cons3.len()];
        let ord = &orders[i / cons3.len()];
        for (oi, obj) in objs.iter().enumerate().take(5) {
            let vc = VarCfg { x1: kbs[1], x7: Some(kbs[3]), prefixed: oi % 2 == 0, dep: (oi % 3) as u8 };
            let mut inst = build(&vc, obj, cons);
            // permute the first three variables (ids 1, 2, 7)
            let first3: Vec<VarRep> = inst.vars[..3].to_vec();
            for (k, o) in ord.iter().enumerate() {
                inst.vars[k] = first3[*o].clone();
            }
            l.states += 1;
            for (fix, rest) in [(vec![(2u64, 0.0)], vec![(1u64, 2.0)]), (vec![(1, -1.0)], vec![(2, 2.0)]), (vec![(1, 2.0), (2, 0.0)], vec![]), (vec![(7, 1.0)], vec![(1, 0.0), (2, 0.0)]), (vec![(2, 0.0)], vec![(1, 2.0), (2, 2.0)]), (vec![(1, -1.0)], vec![(1, 2.0), (2, 2.0)]), (vec![(1, 2.0), (2, 0.0)], vec![(2, 2.0), (1, 0.0)])] {
                let dy = dyadic_consts(&inst) || fix.iter().chain(rest.iter()).any(|(id, x)| *id == 2 && *x == 0.0);
                check_case(l, &Case { inst: inst.clone(), state: rest, bit_exact: dy, pre_fix: fix });
            }
        }
    });
    ctx.assume("Flags are asserted against the tolerance rule applied to the SDK-reported constraint values, which are themselves compared with exact values (bit-exact for dyadic inputs, gamma-bound otherwise).");
    Finish {
        level: "model_checking",
        rule: "every instance of two product families (constraint/flag focus: all (active,removed) lists up to 2+2 with values on every side of the 1e-6 tolerance; bound/fill focus: all kind x bound shapes for a used and an irrelevant variable, pre-fixed variable, dependency none/single/chain/through-fixed) x every state of the per-instance alphabet (grid, bound edges +-5e-8 / +-2e-7, each variable missing, extra undefined id); non-trivial = instance has constraints and state accepted, or state rejected for a stated reason".into(),
        bounds: json!({"threshold_constants": THRESH, "kind_bound_shapes": kbs.len(), "constraints_max": "2 active + 2 removed", "edge_offsets": [5e-8, 2e-7]}),
        exhaustive: true,
    }
}

pub fn replay(l: &mut Local, case: &serde_json::Value) -> Result<(), String> {
    let c: Case = serde_json::from_value(case.clone()).map_err(|e| e.to_string())?;
    check_case(l, &c);
    Ok(())
}

//! C19 — QPLIB files are read as the problem they describe.

use crate::engine::*;
use crate::refmodel::msg::*;
use crate::refmodel::poly::*;
use crate::refmodel::qp::*;
use ommx::v1;
use serde::{Deserialize, Serialize};
use serde_json::json;

#[derive(Clone, Debug, Serialize, Deserialize)]
pub enum Case {
    Model { qp: Qp, layout: QLayout },
    /// a complete file text that must be rejected with an error naming `line`
    Fault { what: String, text: String, line: usize },
}

thread_local! {
    static SCRATCH: std::cell::RefCell<Option<Scratch>> = const { std::cell::RefCell::new(None) };
}

fn scratch_file(name: &str) -> std::path::PathBuf {
    SCRATCH.with(|s| {
        let mut s = s.borrow_mut();
        if s.is_none() {
            *s = Some(Scratch::new(&format!("c19-{:?}", std::thread::current().id()).replace(['(', ')'], "")));
        }
        s.as_ref().unwrap().path(name)
    })
}

/// Both entry points: `load_file`, and (for every second text, chosen by its length) `load_file_bytes`,
/// whose bytes must decode to the instance.
fn load(text: &str) -> Result<Result<v1::Instance, String>, String> {
    use ommx::Message;
    let p = scratch_file("in.qplib");
    std::fs::write(&p, text).expect("ENGINE: scratch write");
    if text.len() % 2 == 0 {
        sdk(|| ommx::qplib::load_file(&p).map_err(|e| format!("{e:#}")))
    } else {
        sdk(|| {
            let bytes = ommx::qplib::load_file_bytes(&p).map_err(|e| format!("{e:#}"))?;
            v1::Instance::decode(bytes.as_slice()).map_err(|e| format!("load_file_bytes returned bytes that do not decode as an instance: {e}"))
        })
    }
}

fn eff_domain(v: &v1::DecisionVariable) -> (bool, f64, f64) {
    let (mut l, mut u) = match &v.bound {
        Some(b) => (b.lower, b.upper),
        None => (f64::NEG_INFINITY, f64::INFINITY),
    };
    let integral = v.kind == KIND_BINARY || v.kind == KIND_INTEGER;
    if v.kind == KIND_BINARY {
        l = l.max(0.0);
        u = u.min(1.0);
    }
    (integral, l, u)
}

pub fn check_case(l: &mut Local, case: &Case) {
    l.evaluations += 1;
    l.transitions += 1;
    match case {
        Case::Fault { what, text, line } => {
            l.nontrivial += 1;
            l.outcome(&(what, line));
            match load(text) {
                Err(p) => l.violation(&format!("fault/{what}/panic"), || json!(case), format!("panicked instead of returning an error: {p}")),
                Ok(Ok(_)) => l.violation(&format!("fault/{what}/accepted"), || json!(case), format!("malformed file ({what} at line {line}) was loaded without error")),
                Ok(Err(e)) => {
                    let named = e.contains(&format!("line {line})")) || e.contains(&format!("line {line} ")) || e.ends_with(&format!("line {line}"));
                    if !named {
                        l.violation(&format!("fault/{what}/line-number"), || json!(case), format!("error does not carry line {line}: {e}"));
                    }
                }
            }
        }
        Case::Model { qp, layout } => {
            let text: String = qp.render_lines(layout).iter().map(|l| l.text.clone()).collect::<Vec<_>>().join("\n") + "\n";
            let inst = match load(&text) {
                Err(p) => return l.violation("model/panic", || json!(case), format!("{p}\n{text}")),
                Ok(Err(e)) => return l.violation("model/well-formed-file-rejected", || json!(case), format!("{e}\n{text}")),
                Ok(Ok(i)) => i,
            };
            let code: String = [qp.code.0, qp.code.1, qp.code.2].iter().collect();
            if qp.has_constraints() || qp.code.0 != 'L' {
                l.nontrivial += 1;
            }
            // variables
            let want_vars = qp.expected_variables();
            if inst.decision_variables.len() != qp.n {
                return l.violation("model/variable-count", || json!(case), format!("{} variables read, file declares {}", inst.decision_variables.len(), qp.n));
            }
            for (i, (dom, name)) in want_vars.iter().enumerate() {
                let Some(v) = inst.decision_variables.iter().find(|v| v.id == i as u64) else {
                    return l.violation("model/variable-ids", || json!(case), format!("no variable with id {i}"));
                };
                let got = eff_domain(v);
                if got != *dom {
                    l.violation(
                        &format!("model/variable-domain/{}", qp.code.1),
                        || json!(case),
                        format!("variable {} (type code {code}): kind {} bound {:?} i.e. {got:?}, file describes (integral, lower, upper) = {dom:?}", i + 1, v.kind, v.bound.as_ref().map(|b| (b.lower, b.upper))),
                    );
                }
                if name.is_some() && v.name != *name {
                    l.violation("model/variable-name", || json!(case), format!("variable {} name {:?}, file says {name:?}", i + 1, v.name));
                }
            }
            // sense
            let want_sense = if qp.maximize { SENSE_MAX } else { SENSE_MIN };
            if inst.sense != want_sense {
                l.violation("model/sense", || json!(case), format!("sense {} expected {want_sense}", inst.sense));
            }
            // objective
            let want_obj = qp.expected_objective();
            l.outcome(&(&want_obj, qp.m));
            match poly_of_opt_function(&inst.objective) {
                Err(e) => l.violation("model/objective-unreadable", || json!(case), e),
                Ok(got) => {
                    if got != want_obj {
                        let diag_only = got.0.iter().chain(want_obj.0.iter()).all(|(k, v)| {
                            let other = if got.0.get(k) == Some(v) { want_obj.0.get(k) } else { got.0.get(k) };
                            got.0.get(k) == want_obj.0.get(k) || (k.len() == 2 && k[0] == k[1] && other.is_some())
                        });
                        let sig = if diag_only { "model/objective/diagonal-entries" } else if got.degree() < 2 && want_obj.degree() < 2 { "model/objective/linear-part" } else { "model/objective/other" };
                        l.violation(sig, || json!(case), format!("objective {} , the file describes 1/2 x'Q0x + b0'x + q0 = {} (x<i> = variable i+1)", got.show(), want_obj.show()));
                    }
                }
            }
            // constraints
            let want_cons = qp.expected_constraints();
            let mut got_cons: Vec<Poly> = vec![];
            let mut ids = std::collections::BTreeSet::new();
            for c in &inst.constraints {
                if c.equality != LE_ZERO {
                    l.violation("model/constraint-equality", || json!(case), format!("constraint {} has equality {}", c.id, c.equality));
                }
                if !ids.insert(c.id) {
                    l.violation("model/constraint-ids-not-unique", || json!(case), format!("constraint id {} repeats", c.id));
                }
                match poly_of_opt_function(&c.function) {
                    Ok(p) => got_cons.push(p),
                    Err(e) => return l.violation("model/constraint-unreadable", || json!(case), e),
                }
            }
            let mut a: Vec<String> = want_cons.iter().map(|p| p.show()).collect();
            let mut b: Vec<String> = got_cons.iter().map(|p| p.show()).collect();
            a.sort();
            b.sort();
            if a != b {
                let sig = if a.len() != b.len() { "model/constraints/count-of-sides" } else { "model/constraints/functions" };
                l.violation(sig, || json!(case), format!("<= 0 constraints read: {b:?}; the file describes {a:?} (type {code}, infinity {})", qp.infinity));
            }
            let got_name = inst.description.as_ref().and_then(|d| d.name.clone());
            if got_name.as_deref() != Some(qp.name.as_str()) {
                l.violation("model/problem-name", || json!(case), format!("name {got_name:?}, file says {}", qp.name));
            }
        }
    }
}

const OBJ_KINDS: [char; 4] = ['L', 'D', 'C', 'Q'];
const VAR_KINDS: [char; 5] = ['C', 'B', 'M', 'I', 'G'];
const CON_KINDS: [char; 6] = ['N', 'B', 'L', 'D', 'C', 'Q'];

/// deterministic content for a model; every dimension is derived from `t` so that the sweep over
/// `t` visits every value of every dimension (and, with the mixed strides, their pairs)
fn make_qp(code: (char, char, char), n: usize, m: usize, t: usize) -> Qp {
    let inf = [1e20, 50.0][t % 2];
    let big = inf * 2.0;
    // objective quadratic part
    let q0: Vec<(usize, usize, f64)> = if code.0 == 'L' {
        vec![]
    } else {
        let pat = (t / 2) % 4;
        let mut v = vec![];
        if pat != 1 {
            v.push((1, 1, 2.0));
        }
        if n >= 2 && code.0 != 'D' && pat >= 1 {
            v.push((2, 1, -1.0));
        }
        if n >= 2 && pat == 3 {
            v.push((n, n, 3.0));
        }
        if n >= 3 && code.0 != 'D' && pat == 2 {
            v.push((3, 2, 0.5));
        }
        v
    };
    let (b0_default, b0): (f64, Vec<(usize, f64)>) = match (t / 8) % 5 {
        0 => (0.0, vec![]),
        1 => (-0.5, vec![]),
        2 => (-0.5, vec![(1, 2.0)]),
        3 if n >= 2 => (-0.5, vec![(1, 0.0), (n, 1.5)]),
        3 => (-0.5, vec![(1, 0.0)]),
        _ if n >= 2 => (0.0, vec![(1, 0.0), (n, 1.5)]),
        _ => (0.0, vec![(1, 1.5)]),
    };
    let q0_const = [0.0, 3.0][(t / 40) % 2];
    let has_q = matches!(code.2, 'D' | 'C' | 'Q');
    let mut qi = vec![];
    let mut bi = vec![];
    // the last entry has the wrong-signed infinity on the lower side: only the magnitude counts
    let sides: [(f64, f64); 8] = [(-1.0, 4.0), (-inf, 4.0), (-1.0, inf), (2.0, 2.0), (-big, 4.0), (-1.0, big), (-inf, inf), (inf, 4.0)];
    let mut cl = vec![];
    let mut cu = vec![];
    let (cl_default, cu_default) = sides[(t / 3) % 8];
    for k in 1..=m {
        if has_q {
            let pat = (t / 5 + k) % 3;
            if pat != 1 {
                qi.push((k, 1, 1, 2.0));
            }
            if n >= 2 && code.2 != 'D' && pat >= 1 {
                qi.push((k, 2, 1, [1.0, -3.0][k % 2]));
            }
            if n >= 2 && pat == 2 {
                qi.push((k, n, n, -1.0));
            }
        }
        // which constraints have linear entries at all: all / all but the last / all but the first / none
        let bi_pat = (t / 23) % 4;
        let with_linear = match bi_pat {
            0 => true,
            1 => k != m,
            2 => k != 1,
            _ => false,
        };
        if with_linear {
            bi.push((k, 1 + (k + t) % n, [1.0, -2.0, 0.5][(k + t) % 3]));
            if n >= 2 && (t + k) % 2 == 0 {
                bi.push((k, 1 + (k + t + 1) % n, 3.0));
            }
        }
        if k >= 2 {
            let s = sides[(t / 3 + k * 3) % 8];
            cl.push((k, s.0));
            cu.push((k, s.1));
        }
    }
    let bounds: [(f64, f64); 7] = [(0.0, 1.0), (-2.0, 3.0), (-inf, 3.0), (0.0, inf), (-big, big), (1.0, 1.0), (inf, -big)];
    let (l_default, u_default) = bounds[(t / 7) % 7];
    let mut lv = vec![];
    let mut uv = vec![];
    for i in 2..=n {
        let b = bounds[(t / 7 + i * 5) % 7];
        lv.push((i, b.0));
        uv.push((i, b.1));
    }
    let type_default: u8 = if code.1 == 'M' { [0u8, 2][(t / 11) % 2] } else { [0u8, 1, 2][(t / 11) % 3] };
    let types: Vec<(usize, u8)> = if n >= 2 { vec![(n, if code.1 == 'M' { 2 - type_default } else { (type_default + 1) % 3 })] } else { vec![] };
    Qp {
        name: format!("QP_{}{}{}_{t}", code.0, code.1, code.2),
        code,
        maximize: (t / 13) % 2 == 1,
        n,
        m,
        q0,
        b0_default,
        b0,
        q0_const,
        qi,
        bi,
        infinity: inf,
        cl_default,
        cl,
        cu_default,
        cu,
        l_default,
        l: lv,
        u_default,
        u: uv,
        type_default,
        types,
        var_names: if (t / 17) % 2 == 1 { vec![(1, "xfirst".to_string())] } else { vec![] },
        con_names: if (t / 19) % 2 == 1 && m >= 1 { vec![(1, "cfirst".to_string())] } else { vec![] },
    }
}

fn layouts() -> Vec<QLayout> {
    vec![
        QLayout { comments: false, trailing_text: false, lowercase: false, reversed: false },
        QLayout { comments: true, trailing_text: true, lowercase: false, reversed: false },
        QLayout { comments: true, trailing_text: false, lowercase: true, reversed: true },
        QLayout { comments: false, trailing_text: true, lowercase: true, reversed: false },
        QLayout { comments: false, trailing_text: false, lowercase: false, reversed: true },
    ]
}

fn fault_cases() -> Vec<Case> {
    let mut out = vec![];
    for (code, t) in [(('Q', 'M', 'L'), 3usize), (('L', 'B', 'N'), 10), (('D', 'C', 'B'), 21), (('Q', 'G', 'Q'), 36), (('C', 'I', 'D'), 47), (('L', 'C', 'L'), 58)] {
        for lay in [layouts()[0], layouts()[1]] {
            let qp = make_qp(code, 3, 2, t);
            let lines = qp.render_lines(&lay);
            let texts: Vec<String> = lines.iter().map(|l| l.text.clone()).collect();
            let with_line = |k: usize, new: String| -> String {
                let mut v = texts.clone();
                v[k] = new;
                v.join("\n") + "\n"
            };
            for (k, ln) in lines.iter().enumerate() {
                let first = ln.text.split_whitespace().next().unwrap_or("").to_string();
                let rest: String = ln.text.split_whitespace().skip(1).collect::<Vec<_>>().join(" ");
                match ln.role {
                    "code" => {
                        for pos in 0..3 {
                            let mut c: Vec<char> = first.chars().collect();
                            c[pos] = 'X';
                            out.push(Case::Fault { what: format!("invalid-type-code-char-{pos}"), text: with_line(k, format!("{} {rest}", c.iter().collect::<String>())), line: k + 1 });
                        }
                        out.push(Case::Fault { what: "type-code-too-short".into(), text: with_line(k, "QM".into()), line: k + 1 });
                    }
                    "sense" => out.push(Case::Fault { what: "invalid-sense".into(), text: with_line(k, format!("Optimize {rest}")), line: k + 1 }),
                    "count" => {
                        out.push(Case::Fault { what: "count-not-numeric".into(), text: with_line(k, format!("many {rest}")), line: k + 1 });
                        out.push(Case::Fault { what: "count-negative".into(), text: with_line(k, format!("-1 {rest}")), line: k + 1 });
                        out.push(Case::Fault { what: "count-fractional".into(), text: with_line(k, format!("1.5 {rest}")), line: k + 1 });
                    }
                    "number" => out.push(Case::Fault { what: "number-unparsable".into(), text: with_line(k, format!("1.2.3 {rest}")), line: k + 1 }),
                    "entry" => {
                        // the value field of an entry line (names are free text: skip the two name sections)
                        let f: Vec<&str> = ln.text.split_whitespace().collect();
                        if f.len() > ln.idx_fields && f[ln.idx_fields].parse::<f64>().is_ok() {
                            let mut g: Vec<String> = f.iter().map(|s| s.to_string()).collect();
                            g[ln.idx_fields] = "x1y".into();
                            out.push(Case::Fault { what: "entry-value-unparsable".into(), text: with_line(k, g.join(" ")), line: k + 1 });
                            let mut g: Vec<String> = f.iter().map(|s| s.to_string()).collect();
                            g[0] = "one".into();
                            out.push(Case::Fault { what: "entry-index-unparsable".into(), text: with_line(k, g.join(" ")), line: k + 1 });
                        }
                    }
                    _ => {}
                }
            }
            // truncation after every line (keeping at least nothing): premature end of file
            for keep in 0..texts.len() {
                let t: String = texts[..keep].iter().map(|s| format!("{s}\n")).collect();
                out.push(Case::Fault { what: "truncated".into(), text: t, line: keep });
            }
        }
    }
    out
}

pub fn run(ctx: &Ctx) -> Finish {
    let t_tier = ctx.tier == Tier::Thorough;
    let mut codes = vec![];
    for o in OBJ_KINDS {
        for v in VAR_KINDS {
            for c in CON_KINDS {
                codes.push((o, v, c));
            }
        }
    }
    let lays = layouts();
    let sweep = ctx.tier.pick(210, 840);
    let nm: Vec<(usize, usize)> = if t_tier {
        vec![(1, 1), (2, 1), (3, 1), (2, 2), (3, 2), (4, 3), (5, 4), (2, 0), (1, 0)]
    } else {
        vec![(1, 1), (2, 1), (3, 2), (5, 4), (2, 0)]
    };
    ctx.note("type_codes", json!(codes.len()));
    ctx.note("sweep_per_code_and_size", json!(sweep));
    ctx.par(codes.len() * nm.len(), |l, i| {
        let code = codes[i % codes.len()];
        let (n, m) = nm[i / codes.len()];
        for t in 0..sweep {
            l.states += 1;
            let case = Case::Model { qp: make_qp(code, n, m, t), layout: lays[(t + i) % lays.len()] };
            if t == 37 && ctx.want_sample(i as u64) {
                l.samples.push((i as u64, json!(case)));
            }
            check_case(l, &case);
        }
    });
    let faults = fault_cases();
    ctx.note("fault_files", json!(faults.len()));
    ctx.par(faults.len(), |l, i| {
        l.states += 1;
        check_case(l, &faults[i]);
    });
    ctx.assume("Format assumption: the two trailing name sections are always written (as in the parser's own example from the QPLIB paper).");
    ctx.assume("Outside the alphabet: well-formed but out-of-range indices (0, > n), upper-triangle entries, repeated entries for the same position.");
    Finish {
        level: "model_checking",
        rule: "abstract QP models for EACH of the 120 problem-type codes (objective L/D/C/Q x variables C/B/M/I/G x constraints N/B/L/D/C/Q) x sizes (n,m) x a deterministic sweep that visits every value of every content dimension (Q0 diagonal/off-diagonal patterns, default and non-default b0 incl. explicit zero, q0, per-constraint Qi/bi (constraints without linear entries: none / the last / the first / all), constraint sides finite / at threshold / beyond threshold (also with the wrong sign) / equal, variable bounds likewise, variable types, names, infinity value 1e20 / 50, sense) x layouts (comment lines with ! # %, blank lines, trailing text, lower-case keywords, sparse sections written in ascending or descending index order), rendered by the harness's own writer and loaded with qplib::load_file or qplib::load_file_bytes (+ decode); expected problem computed from the model: objective 1/2 x'Q0x + b0'x + q0 from the lower triangle, one <=0 constraint per finite side, variables; fault files: each type-code character invalid, counts non-numeric / negative / fractional, unparsable numbers, truncation after every line => Err carrying the line number".into(),
        bounds: json!({"n_max": 5, "m_max": 4, "codes": 120, "sweep": sweep, "layouts": lays.len()}),
        exhaustive: true,
    }
}

pub fn replay(l: &mut Local, case: &serde_json::Value) -> Result<(), String> {
    let c: Case = serde_json::from_value(case.clone()).map_err(|e| e.to_string())?;
    check_case(l, &c);
    Ok(())
}

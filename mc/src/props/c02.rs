//! C02 — function arithmetic is exact polynomial arithmetic for every operand mix.

use crate::engine::*;
use crate::refmodel::family::*;
use crate::refmodel::msg::*;
use crate::refmodel::poly::*;
use ommx::v1;
use serde::{Deserialize, Serialize};
use serde_json::json;

#[derive(Clone, Debug, Serialize, Deserialize, PartialEq)]
pub enum Opd {
    Num(f64),
    Dv(u64),
    Par(u64),
    Lin(FnRep),
    Quad(FnRep),
    Pol(FnRep),
    Fun(FnRep),
}

#[derive(Clone, Copy, Debug, PartialEq, Eq, Hash, PartialOrd, Ord)]
pub enum Kind {
    Num,
    Dv,
    Par,
    Lin,
    Quad,
    Pol,
    Fun,
}

impl Opd {
    fn kind(&self) -> Kind {
        match self {
            Opd::Num(_) => Kind::Num,
            Opd::Dv(_) => Kind::Dv,
            Opd::Par(_) => Kind::Par,
            Opd::Lin(_) => Kind::Lin,
            Opd::Quad(_) => Kind::Quad,
            Opd::Pol(_) => Kind::Pol,
            Opd::Fun(_) => Kind::Fun,
        }
    }
    fn poly(&self) -> Poly {
        match self {
            Opd::Num(c) => Poly::cf(*c),
            Opd::Dv(i) | Opd::Par(i) => Poly::var(*i),
            Opd::Lin(f) | Opd::Quad(f) | Opd::Pol(f) | Opd::Fun(f) => f.poly(),
        }
    }
    fn num(&self) -> f64 {
        match self {
            Opd::Num(c) => *c,
            _ => panic!("ENGINE: operand kind"),
        }
    }
    fn dv(&self) -> v1::DecisionVariable {
        match self {
            Opd::Dv(i) => {
                let mut d = v1::DecisionVariable::default();
                d.id = *i;
                d.kind = if *i == 4 { KIND_BINARY } else { KIND_CONTINUOUS };
                if *i % 2 == 0 {
                    // metadata of the variable must not change what `x_i` means as an operand
                    d.substituted_value = Some(3.0);
                    d.name = Some("x".into());
                    let mut b = v1::Bound::default();
                    b.lower = -1.0;
                    b.upper = 4.0;
                    d.bound = Some(b);
                }
                d
            }
            _ => panic!("ENGINE: operand kind"),
        }
    }
    fn par(&self) -> v1::Parameter {
        match self {
            Opd::Par(i) => {
                let mut d = v1::Parameter::default();
                d.id = *i;
                d
            }
            _ => panic!("ENGINE: operand kind"),
        }
    }
    fn lin(&self) -> v1::Linear {
        match self {
            Opd::Lin(FnRep::Lin { terms, c }) => mk_linear(terms, *c),
            _ => panic!("ENGINE: operand kind"),
        }
    }
    fn quad(&self) -> v1::Quadratic {
        match self {
            Opd::Quad(FnRep::Quad { entries, lin }) => mk_quadratic(entries, lin),
            _ => panic!("ENGINE: operand kind"),
        }
    }
    fn pol(&self) -> v1::Polynomial {
        match self {
            Opd::Pol(FnRep::Poly { terms }) => mk_polynomial(terms),
            _ => panic!("ENGINE: operand kind"),
        }
    }
    fn fun(&self) -> v1::Function {
        match self {
            Opd::Fun(f) => f.to_msg(),
            _ => panic!("ENGINE: operand kind"),
        }
    }
}

trait ToPoly {
    fn to_poly(&self) -> Result<Poly, String>;
    /// Check of the `&T: IntoIterator` term iterator, where the type has one.
    fn iter_check(&self) -> Result<(), String> {
        Ok(())
    }
}

impl ToPoly for f64 {
    fn to_poly(&self) -> Result<Poly, String> {
        q_opt(*self).map(Poly::constant).ok_or_else(|| format!("non-finite number {self}"))
    }
}

fn check_sorted_sum<'a>(
    it: impl Iterator<Item = (Vec<u64>, f64)>,
    expected: &Poly,
    what: &str,
) -> Result<(), String> {
    let mut p = Poly::zero();
    for (ids, c) in it {
        if ids.windows(2).any(|w| w[0] > w[1]) {
            return Err(format!("{what} term iterator yielded unsorted ids {ids:?}"));
        }
        let c = q_opt(c).ok_or_else(|| format!("{what} term iterator yielded non-finite coefficient"))?;
        // add_term sorts, but ids are already verified sorted
        p.add_term(ids, c);
    }
    if &p != expected {
        return Err(format!(
            "{what} term iterator sums to {} but the message represents {}",
            p.show(),
            expected.show()
        ));
    }
    Ok(())
}

impl ToPoly for v1::Linear {
    fn to_poly(&self) -> Result<Poly, String> {
        poly_of_linear(self)
    }
    fn iter_check(&self) -> Result<(), String> {
        let expected = poly_of_linear(self)?;
        check_sorted_sum(
            self.into_iter().map(|(id, c)| (id.into_iter().collect::<Vec<u64>>(), c)),
            &expected,
            "&Linear",
        )
    }
}
impl ToPoly for v1::Quadratic {
    fn to_poly(&self) -> Result<Poly, String> {
        poly_of_quadratic(self)
    }
    fn iter_check(&self) -> Result<(), String> {
        let expected = poly_of_quadratic(self)?;
        check_sorted_sum(self.into_iter().map(|(ids, c)| (ids.to_vec(), c)), &expected, "&Quadratic")
    }
}
impl ToPoly for v1::Polynomial {
    fn to_poly(&self) -> Result<Poly, String> {
        poly_of_polynomial(self)
    }
    fn iter_check(&self) -> Result<(), String> {
        let expected = poly_of_polynomial(self)?;
        check_sorted_sum(self.into_iter().map(|(ids, c)| (ids.to_vec(), c)), &expected, "&Polynomial")
    }
}
impl ToPoly for v1::Function {
    fn to_poly(&self) -> Result<Poly, String> {
        poly_of_function(self)
    }
    fn iter_check(&self) -> Result<(), String> {
        let expected = poly_of_function(self)?;
        check_sorted_sum(self.into_iter().map(|(ids, c)| (ids.to_vec(), c)), &expected, "&Function")
    }
}

/// (result polynomial, result of the term-iterator check on the result)
type OpOut = Result<(Result<Poly, String>, Result<(), String>), String>;

fn out<T: ToPoly>(v: T) -> (Result<Poly, String>, Result<(), String>) {
    (v.to_poly(), v.iter_check())
}

pub struct Impl {
    pub name: &'static str,
    pub lk: Kind,
    pub rk: Option<Kind>,
    pub run: fn(&Opd, Option<&Opd>) -> OpOut,
    pub oracle: fn(&Poly, &Poly) -> Poly,
}

macro_rules! val {
    (Num, $a:expr) => { $a.num() };
    (Dv, $a:expr) => { &$a.dv() };
    (Par, $a:expr) => { &$a.par() };
    (Lin, $a:expr) => { $a.lin() };
    (Quad, $a:expr) => { $a.quad() };
    (Pol, $a:expr) => { $a.pol() };
    (Fun, $a:expr) => { $a.fun() };
}

macro_rules! bin {
    ($v:ident, $lk:ident, $op:tt, $rk:ident, $orc:ident) => {
        $v.push(Impl {
            name: concat!(stringify!($lk), " ", stringify!($op), " ", stringify!($rk)),
            lk: Kind::$lk,
            rk: Some(Kind::$rk),
            run: |a, b| {
                let b = b.expect("binary");
                sdk(|| out(val!($lk, a) $op val!($rk, b)))
            },
            oracle: |x, y| x.$orc(y),
        });
    };
}

macro_rules! neg {
    ($v:ident, $name:expr, $lk:ident, $e:expr) => {
        $v.push(Impl {
            name: $name,
            lk: Kind::$lk,
            rk: None,
            run: |a, _| sdk(|| out($e(a))),
            oracle: |x, _| x.neg(),
        });
    };
}

/// Every operator impl the API defines (a removed impl makes the harness fail to build,
/// which is a machinery failure, never a verdict).
pub fn impls() -> Vec<Impl> {
    let mut v: Vec<Impl> = vec![];
    // --- Add ---
    bin!(v, Lin, +, Lin, add);
    bin!(v, Lin, +, Num, add);
    bin!(v, Num, +, Lin, add);
    bin!(v, Quad, +, Quad, add);
    bin!(v, Quad, +, Lin, add);
    bin!(v, Quad, +, Num, add);
    bin!(v, Lin, +, Quad, add);
    bin!(v, Num, +, Quad, add);
    bin!(v, Pol, +, Pol, add);
    bin!(v, Pol, +, Num, add);
    bin!(v, Pol, +, Lin, add);
    bin!(v, Pol, +, Quad, add);
    bin!(v, Num, +, Pol, add);
    bin!(v, Lin, +, Pol, add);
    bin!(v, Quad, +, Pol, add);
    bin!(v, Fun, +, Fun, add);
    bin!(v, Fun, +, Num, add);
    bin!(v, Fun, +, Lin, add);
    bin!(v, Fun, +, Quad, add);
    bin!(v, Fun, +, Pol, add);
    bin!(v, Num, +, Fun, add);
    bin!(v, Lin, +, Fun, add);
    bin!(v, Quad, +, Fun, add);
    bin!(v, Pol, +, Fun, add);
    bin!(v, Dv, +, Dv, add);
    bin!(v, Dv, +, Num, add);
    bin!(v, Dv, +, Lin, add);
    bin!(v, Dv, +, Quad, add);
    bin!(v, Dv, +, Pol, add);
    bin!(v, Dv, +, Fun, add);
    bin!(v, Num, +, Dv, add);
    bin!(v, Lin, +, Dv, add);
    bin!(v, Quad, +, Dv, add);
    bin!(v, Pol, +, Dv, add);
    bin!(v, Fun, +, Dv, add);
    bin!(v, Par, +, Par, add);
    bin!(v, Par, +, Dv, add);
    bin!(v, Dv, +, Par, add);
    bin!(v, Par, +, Num, add);
    bin!(v, Par, +, Lin, add);
    bin!(v, Par, +, Quad, add);
    bin!(v, Par, +, Pol, add);
    bin!(v, Par, +, Fun, add);
    bin!(v, Num, +, Par, add);
    bin!(v, Lin, +, Par, add);
    bin!(v, Quad, +, Par, add);
    bin!(v, Pol, +, Par, add);
    bin!(v, Fun, +, Par, add);
    // --- Sub ---
    bin!(v, Lin, -, Num, sub);
    bin!(v, Lin, -, Lin, sub);
    bin!(v, Quad, -, Lin, sub);
    bin!(v, Quad, -, Num, sub);
    bin!(v, Quad, -, Quad, sub);
    bin!(v, Pol, -, Pol, sub);
    bin!(v, Fun, -, Fun, sub);
    bin!(v, Fun, -, Num, sub);
    bin!(v, Fun, -, Lin, sub);
    bin!(v, Fun, -, Quad, sub);
    bin!(v, Fun, -, Pol, sub);
    // --- Mul ---
    bin!(v, Lin, *, Num, mul);
    bin!(v, Num, *, Lin, mul);
    bin!(v, Lin, *, Lin, mul);
    bin!(v, Quad, *, Quad, mul);
    bin!(v, Quad, *, Lin, mul);
    bin!(v, Lin, *, Quad, mul);
    bin!(v, Quad, *, Num, mul);
    bin!(v, Num, *, Quad, mul);
    bin!(v, Pol, *, Pol, mul);
    bin!(v, Pol, *, Num, mul);
    bin!(v, Pol, *, Lin, mul);
    bin!(v, Pol, *, Quad, mul);
    bin!(v, Num, *, Pol, mul);
    bin!(v, Lin, *, Pol, mul);
    bin!(v, Quad, *, Pol, mul);
    bin!(v, Fun, *, Fun, mul);
    bin!(v, Fun, *, Num, mul);
    bin!(v, Fun, *, Lin, mul);
    bin!(v, Fun, *, Quad, mul);
    bin!(v, Fun, *, Pol, mul);
    bin!(v, Num, *, Fun, mul);
    bin!(v, Lin, *, Fun, mul);
    bin!(v, Quad, *, Fun, mul);
    bin!(v, Pol, *, Fun, mul);
    bin!(v, Dv, *, Dv, mul);
    bin!(v, Dv, *, Num, mul);
    bin!(v, Dv, *, Lin, mul);
    bin!(v, Dv, *, Quad, mul);
    bin!(v, Dv, *, Pol, mul);
    bin!(v, Dv, *, Fun, mul);
    bin!(v, Num, *, Dv, mul);
    bin!(v, Lin, *, Dv, mul);
    bin!(v, Quad, *, Dv, mul);
    bin!(v, Pol, *, Dv, mul);
    bin!(v, Fun, *, Dv, mul);
    bin!(v, Par, *, Par, mul);
    bin!(v, Par, *, Dv, mul);
    bin!(v, Dv, *, Par, mul);
    bin!(v, Par, *, Num, mul);
    bin!(v, Par, *, Lin, mul);
    bin!(v, Par, *, Quad, mul);
    bin!(v, Par, *, Pol, mul);
    bin!(v, Par, *, Fun, mul);
    bin!(v, Num, *, Par, mul);
    bin!(v, Lin, *, Par, mul);
    bin!(v, Quad, *, Par, mul);
    bin!(v, Pol, *, Par, mul);
    bin!(v, Fun, *, Par, mul);
    // --- Neg ---
    neg!(v, "-Lin", Lin, |a: &Opd| -a.lin());
    neg!(v, "-&Lin", Lin, |a: &Opd| -&a.lin());
    neg!(v, "-Quad", Quad, |a: &Opd| -a.quad());
    neg!(v, "-&Quad", Quad, |a: &Opd| -&a.quad());
    neg!(v, "-Pol", Pol, |a: &Opd| -a.pol());
    neg!(v, "-&Pol", Pol, |a: &Opd| -&a.pol());
    neg!(v, "-Fun", Fun, |a: &Opd| -a.fun());
    neg!(v, "-&Fun", Fun, |a: &Opd| -&a.fun());
    neg!(v, "-&Dv", Dv, |a: &Opd| -&a.dv());
    neg!(v, "-&Par", Par, |a: &Opd| -&a.par());
    v
}

#[derive(Clone, Debug, Serialize, Deserialize)]
pub enum Case {
    Op { name: String, a: Opd, b: Option<Opd> },
    /// `Sum`/`Product` over a sequence; kind = "Linear::sum" | "Function::sum" | "Function::product"
    Fold { kind: String, items: Vec<Opd> },
    /// term iterator of an operand
    Iter { a: Opd },
}

fn sig_of(name: &str) -> String {
    name.replace(' ', "")
}

pub fn check_case(l: &mut Local, table: &[Impl], case: &Case) {
    l.evaluations += 1;
    match case {
        Case::Op { name, a, b } => {
            let Some(im) = table.iter().find(|i| i.name == name) else {
                panic!("ENGINE: unknown impl {name}");
            };
            let pa = a.poly();
            let pb = b.as_ref().map_or_else(Poly::zero, |b| b.poly());
            let expected = (im.oracle)(&pa, &pb);
            l.transitions += 1;
            if !pa.is_zero() && !pb.is_zero() {
                l.nontrivial += 1;
            }
            l.outcome(&expected);
            match (im.run)(a, b.as_ref()) {
                Err(p) => l.violation(&format!("{}/panic", sig_of(name)), || json!(case), format!("{name} panicked: {p}")),
                Ok((Err(e), _)) => l.violation(
                    &format!("{}/unreadable-result", sig_of(name)),
                    || json!(case),
                    format!("{name}: result message unreadable: {e}"),
                ),
                Ok((Ok(got), it)) => {
                    if got != expected {
                        l.violation(
                            &format!("{}/wrong-polynomial", sig_of(name)),
                            || json!(case),
                            format!(
                                "{name}: lhs = {}, rhs = {}, SDK result = {}, exact result = {}",
                                pa.show(),
                                pb.show(),
                                got.show(),
                                expected.show()
                            ),
                        );
                    }
                    if let Err(e) = it {
                        l.violation(&format!("{}/result-term-iterator", sig_of(name)), || json!(case), e);
                    }
                }
            }
        }
        Case::Fold { kind, items } => {
            l.transitions += 1;
            let polys: Vec<Poly> = items.iter().map(|i| i.poly()).collect();
            let (expected, r): (Poly, OpOut) = match kind.as_str() {
                "Linear::sum" => (
                    polys.iter().fold(Poly::zero(), |a, b| a.add(b)),
                    sdk(|| out(items.iter().map(|i| i.lin()).sum::<v1::Linear>())),
                ),
                "Function::sum" => (
                    polys.iter().fold(Poly::zero(), |a, b| a.add(b)),
                    sdk(|| out(items.iter().map(|i| i.fun()).sum::<v1::Function>())),
                ),
                "Function::product" => (
                    polys.iter().fold(Poly::cf(1.0), |a, b| a.mul(b)),
                    sdk(|| out(items.iter().map(|i| i.fun()).product::<v1::Function>())),
                ),
                _ => panic!("ENGINE: unknown fold {kind}"),
            };
            l.outcome(&expected);
            if items.len() >= 2 {
                l.nontrivial += 1;
            }
            match r {
                Err(p) => l.violation(&format!("{kind}/panic"), || json!(case), format!("{kind} panicked: {p}")),
                Ok((Err(e), _)) => l.violation(&format!("{kind}/unreadable-result"), || json!(case), e),
                Ok((Ok(got), _)) => {
                    if got != expected {
                        l.violation(
                            &format!("{kind}/wrong-polynomial"),
                            || json!(case),
                            format!(
                                "{kind} over [{}] = {}, exact = {}",
                                polys.iter().map(|p| p.show()).collect::<Vec<_>>().join(" ; "),
                                got.show(),
                                expected.show()
                            ),
                        );
                    }
                }
            }
        }
        Case::Iter { a } => {
            l.transitions += 1;
            let r = match a.kind() {
                Kind::Lin => sdk(|| a.lin().iter_check()),
                Kind::Quad => sdk(|| a.quad().iter_check()),
                Kind::Pol => sdk(|| a.pol().iter_check()),
                Kind::Fun => sdk(|| a.fun().iter_check()),
                _ => return,
            };
            l.outcome(&a.poly());
            match r {
                Err(p) => l.violation(&format!("term-iterator/{:?}/panic", a.kind()), || json!(case), p),
                Ok(Err(e)) => l.violation(&format!("term-iterator/{:?}", a.kind()), || json!(case), e),
                Ok(Ok(())) => {}
            }
        }
    }
}

/// The schema requires (row, column) positions of a Quadratic to be unique; the property
/// excludes operands that list a position twice.
pub fn has_dup_pos(f: &FnRep) -> bool {
    if let FnRep::Quad { entries, .. } = f {
        for i in 0..entries.len() {
            for j in 0..i {
                if entries[i].0 == entries[j].0 && entries[i].1 == entries[j].1 {
                    return true;
                }
            }
        }
    }
    false
}

pub fn pools(tier: Tier) -> std::collections::BTreeMap<Kind, Vec<Opd>> {
    let t = tier == Tier::Thorough;
    let mut m = std::collections::BTreeMap::new();
    m.insert(Kind::Num, [0.0, -1.0, 0.5, 3.0].iter().map(|c| Opd::Num(*c)).collect::<Vec<_>>());
    m.insert(Kind::Dv, vec![Opd::Dv(1), Opd::Dv(2), Opd::Dv(4)]);
    m.insert(Kind::Par, vec![Opd::Par(10), Opd::Par(2)]);
    let lins: Vec<FnRep> = if t {
        let mut v = gen_linear(&IDS3, &[1.0, -0.5, 0.0], &[0.0, 2.0], 2);
        v.extend(gen_linear(&[1, 2], &[1.0, -1.0], &[0.5], 3));
        v
    } else {
        gen_linear(&IDS3, &[1.0, -0.5], &[0.0, 2.0], 2)
    };
    let mut quads = gen_quadratic(&IDS3, &[1.0, -0.5], 1, &lin_parts_std(), false);
    quads.extend(gen_quadratic(
        &[1, 2],
        &[2.0, -1.0, 0.0],
        2,
        &[None, Some((vec![(7, 1.0)], 0.5))],
        false,
    ).into_iter().filter(|f| matches!(f, FnRep::Quad{entries, ..} if entries.len()==2)));
    if t {
        quads.extend(
            gen_quadratic(&IDS3, &[1.0, -0.5], 2, &[Some((vec![(2, -0.5), (1, 1.0)], 2.0))], false)
                .into_iter()
                .filter(|f| matches!(f, FnRep::Quad{entries, ..} if entries.len()==2)),
        );
    }
    let mut pols = gen_polynomial(&monomials(&IDS3, 3), &[1.0, -0.5, 0.0], 1);
    pols.extend(gen_polynomial(&monomials(&IDS3, 3), &[], 0));
    pols.extend(gen_polynomial(&monomials(&IDS3, if t { 2 } else { 1 }), &[1.0, -0.5], 2));
    let few: Vec<Vec<u64>> = vec![vec![], vec![1], vec![2, 1], vec![1, 2], vec![1, 1], vec![7, 1, 7], vec![1, 2, 7]];
    pols.extend(gen_polynomial(&few, &[1.0, -1.0], 2));
    if t {
        pols.extend(gen_polynomial(&few, &[1.0, -0.5], 3));
    }
    // Function: every variant around a subset
    let mut funs: Vec<FnRep> = vec![FnRep::Const(0.0), FnRep::Const(-1.0), FnRep::Const(2.0)];
    let step = |n: usize, k: usize| (n / k).max(1);
    funs.extend(lins.iter().step_by(step(lins.len(), if t { 40 } else { 16 })).cloned());
    funs.extend(quads.iter().step_by(step(quads.len(), if t { 60 } else { 20 })).cloned());
    funs.extend(pols.iter().step_by(step(pols.len(), if t { 60 } else { 20 })).cloned());
    funs.extend(family_small().into_iter().filter(|f| *f != FnRep::Unset && !has_dup_pos(f)));
    m.insert(Kind::Lin, lins.into_iter().map(Opd::Lin).collect());
    m.insert(Kind::Quad, quads.into_iter().map(Opd::Quad).collect());
    m.insert(Kind::Pol, pols.into_iter().map(Opd::Pol).collect());
    m.insert(Kind::Fun, funs.into_iter().map(Opd::Fun).collect());
    m
}

pub fn run(ctx: &Ctx) -> Finish {
    let table = impls();
    let pools = pools(ctx.tier);
    ctx.note("operator_impls", json!(table.len()));
    ctx.note(
        "pool_sizes",
        json!(pools.iter().map(|(k, v)| (format!("{k:?}"), v.len())).collect::<std::collections::BTreeMap<_, _>>()),
    );
    // Cap per-impl pair counts in the quick tier by thinning the *larger* pool deterministically
    // (stride, not sampling): every element of the smaller pool meets a fixed sub-grid of the larger.
    let cap: usize = ctx.tier.pick(400_000, 2_000_000);
    for (k, im) in table.iter().enumerate() {
        let pa = &pools[&im.lk];
        match im.rk {
            None => {
                ctx.par(pa.len(), |l, i| {
                    l.states += 1;
                    check_case(l, &table, &Case::Op { name: im.name.to_string(), a: pa[i].clone(), b: None });
                });
            }
            Some(rk) => {
                let pb = &pools[&rk];
                let total = pa.len() * pb.len();
                let stride_b = if total > cap { (total / cap).max(1) } else { 1 };
                ctx.par(pa.len(), |l, i| {
                    // offset the stride start by i so that all of pb is met across different i
                    let mut j = i % stride_b;
                    while j < pb.len() {
                        l.states += 1;
                        let case = Case::Op { name: im.name.to_string(), a: pa[i].clone(), b: Some(pb[j].clone()) };
                        if ctx.want_sample((k * 1_000_003 + i * 1009 + j) as u64) {
                            l.samples.push(((k * 1_000_003 + i * 1009 + j) as u64, json!(case)));
                        }
                        check_case(l, &table, &case);
                        j += stride_b;
                    }
                });
                if stride_b > 1 {
                    ctx.note(&format!("thinned/{}", im.name), json!({"pairs_total": total, "stride": stride_b}));
                }
            }
        }
    }
    // extreme magnitudes (all powers of two, so still exact): a scalar below machine epsilon times
    // coefficients large enough that every product is an ordinary number again
    {
        let tiny = 2f64.powi(-60);
        let big = 2f64.powi(62);
        let nums = vec![Opd::Num(tiny), Opd::Num(-tiny)];
        let bigs: Vec<Opd> = vec![
            Opd::Lin(FnRep::Lin { terms: vec![(1, big), (2, -big)], c: big }),
            Opd::Quad(FnRep::Quad { entries: vec![(1, 2, big), (2, 2, -big)], lin: Some((vec![(7, big)], big)) }),
            Opd::Quad(FnRep::Quad { entries: vec![(2, 1, big)], lin: None }),
            Opd::Pol(FnRep::Poly { terms: vec![(vec![1, 2, 7], big), (vec![2], -big), (vec![], big)] }),
            Opd::Fun(FnRep::Const(big)),
            Opd::Fun(FnRep::Lin { terms: vec![(1, big)], c: -big }),
            Opd::Fun(FnRep::Quad { entries: vec![(1, 1, big)], lin: Some((vec![(2, big)], 0.0)) }),
            Opd::Fun(FnRep::Poly { terms: vec![(vec![7, 7, 1], big), (vec![], big)] }),
        ];
        // Only scalars are tiny: a *message* operand whose own coefficient is below machine epsilon may
        // legitimately lose it when converted (the documented dropping), so it is outside the alphabet.
        let tiny_fns: Vec<Opd> = vec![Opd::Fun(FnRep::Const(tiny))];
        ctx.seq(|l| {
            for im in table.iter().filter(|im| im.name.contains('*')) {
                let Some(rk) = im.rk else { continue };
                for a in nums.iter().chain(bigs.iter()).chain(tiny_fns.iter()) {
                    for b in nums.iter().chain(bigs.iter()).chain(tiny_fns.iter()) {
                        if a.kind() != im.lk || b.kind() != rk {
                            continue;
                        }
                        // one tiny factor and one big factor
                        let is_tiny = |o: &Opd| nums.contains(o) || tiny_fns.contains(o);
                        if is_tiny(a) == is_tiny(b) {
                            continue;
                        }
                        l.states += 1;
                        check_case(l, &table, &Case::Op { name: im.name.to_string(), a: a.clone(), b: Some(b.clone()) });
                    }
                }
            }
        });
    }
    // small but not negligible coefficients: 2^-45 is far above machine epsilon (2^-52), so no documented
    // dropping applies; sums and differences must keep it (all values exact)
    {
        let sm = 2f64.powi(-45);
        let smalls: Vec<Opd> = vec![
            Opd::Num(sm),
            Opd::Lin(FnRep::Lin { terms: vec![(1, sm), (2, 2.0)], c: 0.0 }),
            Opd::Lin(FnRep::Lin { terms: vec![(1, 1.0 + sm)], c: 1.0 }),
            Opd::Quad(FnRep::Quad { entries: vec![(1, 2, sm)], lin: Some((vec![(7, -sm)], sm)) }),
            Opd::Pol(FnRep::Poly { terms: vec![(vec![1, 2, 7], sm), (vec![2], -sm), (vec![], 1.0)] }),
            Opd::Fun(FnRep::Lin { terms: vec![(2, sm)], c: -sm }),
            Opd::Fun(FnRep::Quad { entries: vec![(2, 2, 1.0 + sm)], lin: None }),
            Opd::Fun(FnRep::Const(sm)),
        ];
        let regs: Vec<Opd> = vec![
            Opd::Num(3.0),
            Opd::Dv(1),
            Opd::Par(2),
            Opd::Lin(FnRep::Lin { terms: vec![(2, 3.0), (1, -1.0)], c: 0.5 }),
            Opd::Quad(FnRep::Quad { entries: vec![(2, 1, 1.0)], lin: Some((vec![(7, 1.0)], 0.0)) }),
            Opd::Pol(FnRep::Poly { terms: vec![(vec![7, 2, 1], 2.0), (vec![2], 1.0)] }),
            Opd::Fun(FnRep::Lin { terms: vec![(1, -1.0)], c: 0.0 }),
            Opd::Fun(FnRep::Quad { entries: vec![(2, 2, -1.0)], lin: Some((vec![(2, 1.0)], 1.0)) }),
        ];
        ctx.seq(|l| {
            for im in table.iter().filter(|im| !im.name.contains('*')) {
                match im.rk {
                    None => {
                        for a in smalls.iter().filter(|a| a.kind() == im.lk) {
                            l.states += 1;
                            check_case(l, &table, &Case::Op { name: im.name.to_string(), a: a.clone(), b: None });
                        }
                    }
                    Some(rk) => {
                        for (xs, ys) in [(&smalls, &regs), (&regs, &smalls), (&smalls, &smalls)] {
                            for a in xs.iter().filter(|a| a.kind() == im.lk) {
                                for b in ys.iter().filter(|b| b.kind() == rk) {
                                    l.states += 1;
                                    check_case(l, &table, &Case::Op { name: im.name.to_string(), a: a.clone(), b: Some(b.clone()) });
                                }
                            }
                        }
                    }
                }
            }
        });
    }
    // id extremes: 0, an id above 2^32 next to its low 32 bits, u64::MAX - every impl on every pair of a
    // small pool per kind (ids are opaque 64-bit numbers; nothing may depend on their size)
    {
        let e = (1u64 << 32) + 3;
        let mx = u64::MAX;
        let lins = vec![FnRep::Lin { terms: vec![(e, 1.0), (3, 2.0)], c: 1.0 }, FnRep::Lin { terms: vec![(mx, 1.0), (0, -1.0)], c: 0.0 }];
        let quads = vec![
            FnRep::Quad { entries: vec![(3, e, 1.0), (e, e, -0.5)], lin: Some((vec![(0, 1.0)], 0.5)) },
            FnRep::Quad { entries: vec![(e, 3, 2.0), (mx, 0, 1.0)], lin: None },
            FnRep::Quad { entries: vec![(3, 3, 1.0), (0, mx, -1.0)], lin: Some((vec![(e, 2.0), (3, 1.0)], 0.0)) },
        ];
        let pols = vec![
            FnRep::Poly { terms: vec![(vec![e, 3, 0], 1.0), (vec![mx], -1.0)] },
            FnRep::Poly { terms: vec![(vec![3, e], 0.5), (vec![], 2.0), (vec![e, 3], 1.0)] },
        ];
        let mut ext: std::collections::BTreeMap<Kind, Vec<Opd>> = std::collections::BTreeMap::new();
        ext.insert(Kind::Num, vec![Opd::Num(-1.0), Opd::Num(0.5)]);
        ext.insert(Kind::Dv, vec![Opd::Dv(0), Opd::Dv(e), Opd::Dv(mx), Opd::Dv(3)]);
        ext.insert(Kind::Par, vec![Opd::Par(e), Opd::Par(mx), Opd::Par(0)]);
        let mut funs: Vec<Opd> = vec![Opd::Fun(FnRep::Const(2.0))];
        funs.extend(lins.iter().chain(quads.iter()).chain(pols.iter()).cloned().map(Opd::Fun));
        ext.insert(Kind::Lin, lins.into_iter().map(Opd::Lin).collect());
        ext.insert(Kind::Quad, quads.into_iter().map(Opd::Quad).collect());
        ext.insert(Kind::Pol, pols.into_iter().map(Opd::Pol).collect());
        ext.insert(Kind::Fun, funs);
        ctx.seq(|l| {
            for im in table.iter() {
                for a in &ext[&im.lk] {
                    match im.rk {
                        None => {
                            l.states += 1;
                            check_case(l, &table, &Case::Op { name: im.name.to_string(), a: a.clone(), b: None });
                        }
                        Some(rk) => {
                            for b in &ext[&rk] {
                                l.states += 1;
                                check_case(l, &table, &Case::Op { name: im.name.to_string(), a: a.clone(), b: Some(b.clone()) });
                            }
                        }
                    }
                }
            }
            for k in [Kind::Lin, Kind::Quad, Kind::Pol, Kind::Fun] {
                for a in &ext[&k] {
                    check_case(l, &table, &Case::Iter { a: a.clone() });
                }
            }
        });
    }
    // long operands (33 and 65 terms: beyond any block size a vectorised or chunked implementation would
    // use) against each other and against small ones, every impl
    {
        let mut longp: std::collections::BTreeMap<Kind, Vec<Opd>> = std::collections::BTreeMap::new();
        for (f, _) in super::c01::long_functions() {
            let main_len = match &f {
                FnRep::Lin { terms, .. } => terms.len(),
                FnRep::Quad { entries, .. } => entries.len(),
                FnRep::Poly { terms } => terms.len(),
                _ => 0,
            };
            if main_len != 33 && main_len != 65 {
                continue;
            }
            if has_dup_pos(&f) {
                continue;
            }
            let k = match &f {
                FnRep::Lin { .. } => Kind::Lin,
                FnRep::Quad { .. } => Kind::Quad,
                _ => Kind::Pol,
            };
            let o = match k {
                Kind::Lin => Opd::Lin(f.clone()),
                Kind::Quad => Opd::Quad(f.clone()),
                _ => Opd::Pol(f.clone()),
            };
            longp.entry(k).or_default().push(o);
            longp.entry(Kind::Fun).or_default().push(Opd::Fun(f));
        }
        longp.insert(Kind::Num, vec![Opd::Num(-0.5)]);
        longp.insert(Kind::Dv, vec![Opd::Dv(4)]);
        longp.insert(Kind::Par, vec![Opd::Par(4)]);
        ctx.note("long_operands", json!(longp.iter().map(|(k, v)| (format!("{k:?}"), v.len())).collect::<std::collections::BTreeMap<_, _>>()));
        let jobs: Vec<(usize, usize)> = table.iter().enumerate().flat_map(|(k, im)| (0..longp.get(&im.lk).map_or(0, |v| v.len())).map(move |i| (k, i))).collect();
        ctx.par(jobs.len(), |l, j| {
            let (k, i) = jobs[j];
            let im = &table[k];
            let a = &longp[&im.lk][i];
            match im.rk {
                None => {
                    l.states += 1;
                    check_case(l, &table, &Case::Op { name: im.name.to_string(), a: a.clone(), b: None });
                }
                Some(rk) => {
                    for b in longp.get(&rk).into_iter().flatten() {
                        l.states += 1;
                        check_case(l, &table, &Case::Op { name: im.name.to_string(), a: a.clone(), b: Some(b.clone()) });
                    }
                }
            }
        });
    }
    // term iterators of the operands themselves
    for k in [Kind::Lin, Kind::Quad, Kind::Pol, Kind::Fun] {
        let p = &pools[&k];
        ctx.par(p.len(), |l, i| check_case(l, &table, &Case::Iter { a: p[i].clone() }));
    }
    // Sum / Product over sequences of length 0..3
    let lin_items: Vec<Opd> = pools[&Kind::Lin].iter().step_by((pools[&Kind::Lin].len() / 12).max(1)).cloned().collect();
    let fun_items: Vec<Opd> = pools[&Kind::Fun].iter().step_by((pools[&Kind::Fun].len() / 10).max(1)).cloned().collect();
    for (kind, items) in [("Linear::sum", &lin_items), ("Function::sum", &fun_items), ("Function::product", &fun_items)] {
        let mut seqs: Vec<Vec<usize>> = vec![];
        for len in 0..=3 {
            seqs.extend(sequences(items.len(), len));
        }
        ctx.par(seqs.len(), |l, i| {
            l.states += 1;
            let case = Case::Fold {
                kind: kind.to_string(),
                items: seqs[i].iter().map(|j| items[*j].clone()).collect(),
            };
            check_case(l, &table, &case);
        });
    }
    let thinned = ctx.notes.lock().unwrap().keys().any(|k| k.starts_with("thinned/"));
    Finish {
        level: "model_checking",
        rule: "every operator impl of the API (Add/Sub/Mul/Neg over f64, &DecisionVariable, &Parameter, Linear, Quadratic, Polynomial, Function; Sum/Product) x every ordered pair of operand values from closed pools (all representations: unsorted, repeated, lower/upper triangle, explicit zeros, absent linear part), from a pool with id extremes (0, 2^32+3 next to 3, u64::MAX), from a pool of long operands (33 / 65 terms) and, for sums and differences, from a pool with 2^-45 coefficients; result read through public fields and compared with exact polynomial arithmetic; non-trivial = both operands non-zero".into(),
        bounds: json!({"ids": [1,2,7], "parameter_ids": [10,2], "numbers": [0,-1,0.5,3], "terms_max": ctx.tier.pick(2,3), "fold_len_max": 3,
            "pair_cap_per_impl": cap, "note": "where a per-impl pair grid exceeds the cap the larger pool is traversed with a fixed stride (recorded under thinned/*); the run is then exhaustive over the stated sub-grid only"}),
        exhaustive: !thinned,
    }
}

pub fn replay(l: &mut Local, case: &serde_json::Value) -> Result<(), String> {
    let c: Case = serde_json::from_value(case.clone()).map_err(|e| e.to_string())?;
    check_case(l, &impls(), &c);
    Ok(())
}

//! C12 — log-encoding covers exactly the integer range.

use crate::engine::*;
use crate::refmodel::msg::*;
use crate::refmodel::poly::*;
use ommx::{v1, Evaluate};
use serde::{Deserialize, Serialize};
use serde_json::json;
use std::collections::BTreeSet;

#[derive(Clone, Debug, Serialize, Deserialize)]
pub enum Case {
    /// finite bound [lower, upper] on integer variable 5 of an instance with ids [9, 5, 2]
    /// `pre_fix`: a real `partial_evaluate({id: value})` is run first (history: the variable, or another one, was fixed)
    Range {
        lower: X,
        upper: X,
        brute_force: bool,
        #[serde(default)]
        pre_fix: Option<(u64, X)>,
    },
    /// error conditions: kind / bound shape / unknown id
    Error {
        what: String,
        kind: i32,
        bound: Option<(X, X)>,
        id: u64,
        #[serde(default)]
        pre_fix: Option<(u64, X)>,
    },
    /// infinite bound, run in an isolated subprocess
    Infinite { lower: X, upper: X },
    /// log_encode called twice on the same variable, the bound changed in between
    Twice { first: (X, X), second: (X, X) },
}

const ENC_ID: u64 = 5;

fn instance(kind: i32, bound: Option<(f64, f64)>) -> v1::Instance {
    // Non-contiguous ids, maximum not last. Two layouts, so that id schemes based on the last list
    // element (layout 0: 8 + 1 = 9 exists) or on the list length (layout 1: 4 exists) collide.
    let layout1 = bound.is_some_and(|(l, u)| ((u - l).abs() as u64) % 2 == 1);
    let mut vars = if layout1 {
        vec![VarRep::new(4, KIND_BINARY, None), VarRep::new(ENC_ID, kind, bound), VarRep::new(9, KIND_CONTINUOUS, None), VarRep::new(3, KIND_BINARY, None)]
    } else {
        vec![VarRep::new(9, KIND_CONTINUOUS, None), VarRep::new(ENC_ID, kind, bound), VarRep::new(8, KIND_BINARY, None)]
    };
    vars[0].name = Some("pre-existing".into());
    InstRep {
        sense: SENSE_MIN,
        objective: Some(FnRep::Lin { terms: vec![(ENC_ID, 1.0)], c: 0.0 }),
        vars,
        ..Default::default()
    }
    .to_msg()
}

/// Equality that also holds for NaN fields (PartialEq on f64 does not): equal values or equal encodings.
fn same_message(a: &v1::Instance, b: &v1::Instance) -> bool {
    use ommx::Message;
    a == b || a.encode_to_vec() == b.encode_to_vec()
}

/// subset sums of non-negative integer coefficients, as a bitset over 0..=limit
fn subset_sums(coefs: &[u64], limit: usize) -> Vec<bool> {
    let mut r = vec![false; limit + 1];
    r[0] = true;
    for c in coefs {
        let c = *c as usize;
        if c == 0 {
            continue;
        }
        for s in (c..=limit).rev() {
            if r[s - c] {
                r[s] = true;
            }
        }
    }
    r
}

/// complete-sequence criterion: sorted c1 = 1, c_{k+1} <= 1 + sum_{i<=k} c_i, total = w  =>  subset sums = 0..=w
fn complete_sequence(coefs: &[u64], w: u64) -> bool {
    let mut c: Vec<u64> = coefs.iter().cloned().filter(|x| *x != 0).collect();
    c.sort_unstable();
    let mut sum = 0u64;
    for x in c {
        if x == 0 || x > sum + 1 {
            return false;
        }
        sum += x;
    }
    sum == w
}

/// History step: the SDK's own `partial_evaluate` fixes one variable (sets its substituted value and
/// rewrites the functions). `false` when the SDK refuses the step (not the subject here).
fn apply_pre_fix(msg: &mut v1::Instance, id: u64, value: f64) -> bool {
    matches!(sdk(|| msg.partial_evaluate(&mk_state(&[(id, value)])).map(|_| ()).map_err(|e| format!("{e:#}"))), Ok(Ok(())))
}

pub fn check_case(l: &mut Local, case: &Case) {
    l.evaluations += 1;
    l.transitions += 1;
    match case {
        Case::Range { lower, upper, brute_force, pre_fix } => {
            let (lo, up) = (lower.0, upper.0);
            let il = lo.ceil();
            let iu = up.floor();
            let mut msg = instance(KIND_INTEGER, Some((lo, up)));
            if let Some((fid, fv)) = pre_fix {
                if !apply_pre_fix(&mut msg, *fid, fv.0) {
                    return;
                }
                l.bump("after_partial_evaluate", 1);
            }
            let before = msg.clone();
            let r = sdk(|| msg.log_encode(ENC_ID).map_err(|e| format!("{e:#}")));
            let r = match r {
                Err(p) => return l.violation("range/panic", || json!(case), p),
                Ok(r) => r,
            };
            if iu < il {
                l.outcome(&"empty");
                if r.is_ok() {
                    l.violation("range/no-integer-accepted", || json!(case), format!("[{lo}, {up}] contains no integer but log_encode succeeded"));
                } else if !same_message(&msg, &before) {
                    l.violation("error/instance-modified", || json!(case), "log_encode failed but modified the instance".into());
                }
                return;
            }
            let w = (iu - il) as u64;
            l.outcome(&w);
            if w > 0 {
                l.nontrivial += 1;
            }
            let enc = match r {
                Err(e) => return l.violation("range/valid-range-rejected", || json!(case), format!("log_encode failed on integer range [{il}, {iu}]: {e}")),
                Ok(e) => e,
            };
            // registration
            let new_vars: Vec<&v1::DecisionVariable> = msg.decision_variables.iter().skip(before.decision_variables.len()).collect();
            if msg.decision_variables[..before.decision_variables.len()] != before.decision_variables[..] {
                l.violation("range/existing-variables-changed", || json!(case), "existing decision variables were modified".into());
            }
            let term_ids: Vec<u64> = enc.terms.iter().map(|t| t.id).collect();
            let term_set: BTreeSet<u64> = term_ids.iter().cloned().collect();
            let new_ids: BTreeSet<u64> = new_vars.iter().map(|v| v.id).collect();
            let old_ids: BTreeSet<u64> = before.decision_variables.iter().map(|v| v.id).collect();
            if w == 0 {
                if !enc.terms.is_empty() || !new_vars.is_empty() || q_opt(enc.constant) != Some(q(il)) {
                    l.violation("range/single-integer-not-constant", || json!(case), format!("single-integer range [{il},{iu}]: got {enc:?} and {} new variables", new_vars.len()));
                }
                return;
            }
            if term_set.len() != term_ids.len() || new_ids.len() != new_vars.len() || term_set != new_ids || !new_ids.is_disjoint(&old_ids) {
                l.violation(
                    "range/binaries-not-fresh-or-not-registered",
                    || json!(case),
                    format!("encoding uses ids {term_ids:?}; newly registered {new_ids:?}; pre-existing {old_ids:?}"),
                );
            }
            for v in &new_vars {
                let b = v.bound.as_ref().map(|b| (b.lower, b.upper));
                if v.kind != KIND_BINARY || b != Some((0.0, 1.0)) {
                    l.violation("range/binary-kind-or-bound", || json!(case), format!("new variable {} has kind {} bound {:?}", v.id, v.kind, b));
                }
                if !v.subscripts.contains(&(ENC_ID as i64)) {
                    l.violation("range/binary-not-tagged", || json!(case), format!("new variable {} subscripts {:?} do not name the encoded variable {ENC_ID}", v.id, v.subscripts));
                }
            }
            // value set
            if q_opt(enc.constant) != Some(q(il)) {
                l.violation("range/offset", || json!(case), format!("constant {} , ceil(lower) = {il}", enc.constant));
            }
            let mut coefs: Vec<u64> = vec![];
            for t in &enc.terms {
                if t.coefficient.fract() != 0.0 || t.coefficient < 0.0 || !(t.coefficient <= 1e15) {
                    return l.violation("range/non-integer-coefficient", || json!(case), format!("coefficient {} of bit {}", t.coefficient, t.id));
                }
                coefs.push(t.coefficient as u64);
            }
            let crit = complete_sequence(&coefs, w);
            if *brute_force {
                // all 2^n bit patterns, as subset sums of the coefficients
                let total: u64 = coefs.iter().sum();
                let limit = (total.max(w) as usize).min(1 << 22);
                let sums = subset_sums(&coefs, limit);
                let exact_cover = sums.iter().enumerate().all(|(s, r)| *r == (s as u64 <= w));
                if !exact_cover {
                    let missing: Vec<usize> = (0..=w as usize).filter(|s| !sums.get(*s).cloned().unwrap_or(false)).take(5).collect();
                    let beyond: Vec<usize> = sums.iter().enumerate().filter(|(s, r)| **r && *s as u64 > w).map(|(s, _)| s).take(5).collect();
                    l.violation(
                        "range/value-set",
                        || json!(case),
                        format!("bits {coefs:?} + {il}: values over all bit patterns are not exactly {il}..={iu}: unreachable offsets {missing:?}, out-of-range offsets {beyond:?}"),
                    );
                }
                if exact_cover != crit {
                    // for positive integers the criterion is necessary and sufficient; disagreement is a harness bug
                    panic!("ENGINE: complete-sequence criterion ({crit}) and brute force ({exact_cover}) disagree on {coefs:?} for w={w}");
                }
                l.bump("criterion_validated_against_bruteforce", 1);
                // the SDK's own evaluate on every pattern for small widths
                if w <= 64 && coefs.len() <= 7 {
                    let mut seen = BTreeSet::new();
                    for mask in 0..(1u32 << coefs.len()) {
                        let st: Vec<(u64, f64)> = term_ids.iter().enumerate().map(|(i, id)| (*id, (mask >> i & 1) as f64)).collect();
                        match sdk(|| enc.evaluate(&mk_state(&st))) {
                            Ok(Ok((v, _))) => {
                                seen.insert(v as i64);
                                if v.fract() != 0.0 {
                                    l.violation("range/evaluate-non-integer", || json!(case), format!("pattern {mask:b} evaluates to {v}"));
                                }
                            }
                            _ => l.violation("range/evaluate-error", || json!(case), "Linear::evaluate failed on a bit pattern".into()),
                        }
                    }
                    let want: BTreeSet<i64> = (il as i64..=iu as i64).collect();
                    if seen != want {
                        l.violation("range/value-set", || json!(case), format!("evaluate over all bit patterns gives {seen:?}, expected {want:?}"));
                    }
                }
            } else if !crit {
                l.violation(
                    "range/value-set",
                    || json!(case),
                    format!("bits {coefs:?} for width {w} do not form a complete sequence summing to {w}: the value set is not exactly {il}..={iu}"),
                );
            }
        }
        Case::Error { what, kind, bound, id, pre_fix } => {
            let mut msg = instance(*kind, bound.map(|(a, b)| (a.0, b.0)));
            if what == "unknown-id-no-variables" {
                msg.decision_variables.clear();
                msg.objective = None;
            }
            if let Some((fid, fv)) = pre_fix {
                if !apply_pre_fix(&mut msg, *fid, fv.0) {
                    return;
                }
                l.bump("after_partial_evaluate", 1);
            }
            let before = msg.clone();
            l.outcome(what);
            l.nontrivial += 1;
            match sdk(|| msg.log_encode(*id).map_err(|e| format!("{e:#}"))) {
                Err(p) => l.violation(&format!("error/{what}/panic"), || json!(case), p),
                Ok(Ok(enc)) => l.violation(&format!("error/{what}/accepted"), || json!(case), format!("log_encode must fail ({what}) but returned {enc:?}")),
                Ok(Err(_)) => {
                    if !same_message(&msg, &before) {
                        l.violation("error/instance-modified", || json!(case), "log_encode failed but modified the instance".into());
                    }
                }
            }
        }
        Case::Twice { first, second } => {
            let mut msg = instance(KIND_INTEGER, Some((first.0 .0, first.1 .0)));
            l.nontrivial += 1;
            let r1 = sdk(|| msg.log_encode(ENC_ID).map_err(|e| format!("{e:#}")));
            if !matches!(r1, Ok(Ok(_))) {
                return; // the first call is the subject of the Range cases
            }
            for v in msg.decision_variables.iter_mut() {
                if v.id == ENC_ID {
                    let mut b = v1::Bound::default();
                    b.lower = second.0 .0;
                    b.upper = second.1 .0;
                    v.bound = Some(b);
                }
            }
            let before = msg.clone();
            let enc = match sdk(|| msg.log_encode(ENC_ID).map_err(|e| format!("{e:#}"))) {
                Err(p) => return l.violation("twice/panic", || json!(case), p),
                Ok(Err(e)) => return l.violation("twice/second-call-rejected", || json!(case), format!("second log_encode on the same variable failed: {e}")),
                Ok(Ok(e)) => e,
            };
            let (il, iu) = (second.0 .0.ceil(), second.1 .0.floor());
            let w = (iu - il) as u64;
            l.outcome(&("twice", w));
            let old_ids: BTreeSet<u64> = before.decision_variables.iter().map(|v| v.id).collect();
            let term_ids: Vec<u64> = enc.terms.iter().map(|t| t.id).collect();
            let new_ids: BTreeSet<u64> = msg.decision_variables.iter().skip(before.decision_variables.len()).map(|v| v.id).collect();
            if term_ids.iter().any(|i| old_ids.contains(i)) || term_ids.iter().cloned().collect::<BTreeSet<_>>() != new_ids {
                l.violation(
                    "twice/binaries-not-fresh",
                    || json!(case),
                    format!("second encoding uses ids {term_ids:?}; ids existing before the call {old_ids:?}; newly registered {new_ids:?}"),
                );
            }
            let coefs: Vec<u64> = enc.terms.iter().map(|t| t.coefficient as u64).collect();
            if q_opt(enc.constant) != Some(q(il)) || !(w == 0 && coefs.is_empty() || complete_sequence(&coefs, w)) {
                l.violation("twice/value-set", || json!(case), format!("second encoding {il} + bits {coefs:?} does not cover exactly {il}..={iu}"));
            }
        }
        Case::Infinite { lower, upper } => {
            l.outcome(&(lower.0.to_bits(), upper.0.to_bits()));
            l.nontrivial += 1;
            let outcome = run_child(&["log_encode", &format!("{}", lower.0), &format!("{}", upper.0)], 10, 1 << 30);
            match outcome.as_str() {
                "ERR" => {}
                other => l.violation(
                    "error/infinite-bound/no-error",
                    || json!(case),
                    format!("log_encode on integer variable with bound [{}, {}] did not return an error; isolated subprocess outcome: {other}", lower.0, upper.0),
                ),
            }
        }
    }
}

/// Runs `ommx-mc child <args>` with an address-space limit and a watchdog; returns the child's
/// verdict line ("ERR", "OK") or how it died.
pub fn run_child(args: &[&str], timeout_s: u64, mem_bytes: u64) -> String {
    use std::os::unix::process::CommandExt;
    use std::process::{Command, Stdio};
    let exe = std::env::current_exe().expect("ENGINE: current_exe");
    let mut cmd = Command::new(exe);
    cmd.arg("child").args(args).stdout(Stdio::piped()).stderr(Stdio::null()).stdin(Stdio::null());
    unsafe {
        cmd.pre_exec(move || {
            let lim = libc::rlimit { rlim_cur: mem_bytes, rlim_max: mem_bytes };
            libc::setrlimit(libc::RLIMIT_AS, &lim);
            Ok(())
        });
    }
    let mut child = cmd.spawn().expect("ENGINE: cannot spawn child probe");
    let start = std::time::Instant::now();
    loop {
        match child.try_wait() {
            Ok(Some(status)) => {
                let mut out = String::new();
                if let Some(mut so) = child.stdout.take() {
                    use std::io::Read;
                    let _ = so.read_to_string(&mut out);
                }
                let verdict = out.lines().rev().find(|l| l.starts_with("VERDICT ")).map(|l| l[8..].trim().to_string());
                return match (status.success(), verdict) {
                    (true, Some(v)) => v,
                    (_, _) => format!("died ({status}; memory limit {} MiB)", mem_bytes >> 20),
                };
            }
            Ok(None) => {
                if start.elapsed().as_secs() >= timeout_s {
                    let _ = child.kill();
                    let _ = child.wait();
                    return format!("timeout after {timeout_s}s (killed)");
                }
                std::thread::sleep(std::time::Duration::from_millis(20));
            }
            Err(e) => panic!("ENGINE: wait on child failed: {e}"),
        }
    }
}

/// `ommx-mc child log_encode <lower> <upper>`
pub fn child_log_encode(args: &[String]) -> i32 {
    let lo: f64 = args[0].parse().unwrap_or(f64::NAN);
    let up: f64 = args[1].parse().unwrap_or(f64::NAN);
    let mut msg = instance(KIND_INTEGER, Some((lo, up)));
    match msg.log_encode(ENC_ID) {
        Ok(enc) => println!("VERDICT OK returned {} terms", enc.terms.len()),
        Err(_) => println!("VERDICT ERR"),
    }
    0
}

pub fn run(ctx: &Ctx) -> Finish {
    let t = true;
    // 1. brute force: every width 0..=W at several lower ends and fractional offsets
    let wmax: u64 = 4096; // both tiers: the full sweep takes a few seconds
    let lowers: Vec<i64> = vec![-(1 << 20), -4097, -7, -1, 0, 1, 5];
    // fractional parts incl. one within 1e-6 of the next integer (a tolerant rounding would be wrong)
    let fr = [0.0, 0.25, 0.5, 0.75, 1.0 - 5e-7];
    ctx.par((wmax + 1) as usize, |l, wi| {
        let w = wi as i64;
        let mut ls = lowers.clone();
        ls.push((1 << 20) - w);
        for (k, lo) in ls.iter().enumerate() {
            l.states += 1;
            for (a, fl) in fr.iter().enumerate() {
                for (b, fu) in fr.iter().enumerate() {
                    // all 16 offset pairs at small widths, a rotating subset above
                    if w > 64 && !t && (a + b + k + wi) % 5 != 0 {
                        continue;
                    }
                    let case = Case::Range { lower: X(*lo as f64 - fl), upper: X((*lo + w) as f64 + fu), brute_force: true, pre_fix: None };
                    if k == 2 && a == 1 && b == 2 && ctx.want_sample(wi as u64) {
                        l.samples.push((wi as u64, json!(case)));
                    }
                    check_case(l, &case);
                }
            }
        }
    });
    // ranges without any integer, and degenerate ones
    ctx.seq(|l| {
        for lo in [-7.0, 0.0, 5.0] {
            for (a, b) in [(0.2, 0.8), (0.5, 0.5), (0.01, 0.99), (0.75, 0.25)] {
                if a <= b {
                    check_case(l, &Case::Range { lower: X(lo + a), upper: X(lo + b), brute_force: true, pre_fix: None });
                }
            }
            check_case(l, &Case::Range { lower: X(lo), upper: X(lo), brute_force: true, pre_fix: None });
        }
    });
    // history: the encoded variable (or another one) was fixed by a real partial_evaluate first;
    // the encoding is a function of kind and bound only
    ctx.par(130, |l, wi| {
        let w = wi as i64;
        for lo in [-7i64, 0, 5] {
            l.states += 1;
            for (fid, fv) in [(ENC_ID, lo as f64), (ENC_ID, (lo + w) as f64), (ENC_ID, (lo + w / 2) as f64), (9, 0.5)] {
                for (fl, fu) in [(0.0, 0.0), (0.25, 0.5)] {
                    check_case(l, &Case::Range { lower: X(lo as f64 - fl), upper: X((lo + w) as f64 + fu), brute_force: true, pre_fix: Some((fid, X(fv))) });
                }
            }
        }
    });
    // second call on the same variable, with the same and with a changed bound
    ctx.seq(|l| {
        let bounds = [(0.0, 3.0), (0.0, 10.0), (-2.0, 5.0), (1.0, 1.0), (0.0, 1.0), (4.0, 9.5)];
        for a in bounds {
            for b in bounds {
                l.states += 1;
                check_case(l, &Case::Twice { first: (X(a.0), X(a.1)), second: (X(b.0), X(b.1)) });
            }
        }
    });
    // 2. every width up to 2^21 (quick: 2^17) through the complete-sequence criterion
    let big: u64 = 1 << 21;
    let chunk = 4096u64;
    ctx.par(((big + chunk - 1) / chunk) as usize, |l, ci| {
        for w in (ci as u64 * chunk + 1)..=((ci as u64 + 1) * chunk).min(big) {
            for lo in [0i64, -(1 << 20), (1 << 20) - w as i64] {
                l.states += 1;
                check_case(l, &Case::Range { lower: X(lo as f64), upper: X((lo + w as i64) as f64), brute_force: false, pre_fix: None });
            }
        }
    });
    // 3. error conditions
    ctx.seq(|l| {
        let nan = f64::NAN;
        let errs: Vec<(&str, i32, Option<(f64, f64)>, u64)> = vec![
            ("unknown-id", KIND_INTEGER, Some((0.0, 3.0)), 77),
            ("unknown-id-no-variables", KIND_INTEGER, Some((0.0, 3.0)), ENC_ID),
            ("kind-binary", KIND_BINARY, Some((0.0, 1.0)), ENC_ID),
            ("kind-continuous", KIND_CONTINUOUS, Some((0.0, 3.0)), ENC_ID),
            ("kind-semi-integer", 4, Some((0.0, 3.0)), ENC_ID),
            ("kind-semi-continuous", 5, Some((0.0, 3.0)), ENC_ID),
            ("kind-unspecified", 0, Some((0.0, 3.0)), ENC_ID),
            // the kind rule does not depend on how many integers the bound holds
            ("kind-binary-single-integer", KIND_BINARY, Some((1.0, 1.0)), ENC_ID),
            ("kind-continuous-single-integer", KIND_CONTINUOUS, Some((2.0, 2.0)), ENC_ID),
            ("kind-continuous-single-integer-fractional-bound", KIND_CONTINUOUS, Some((1.5, 2.5)), ENC_ID),
            ("kind-semi-integer-single-integer", 4, Some((2.0, 2.0)), ENC_ID),
            ("kind-semi-continuous-single-integer", 5, Some((1.5, 2.5)), ENC_ID),
            ("kind-unspecified-single-integer", 0, Some((2.0, 2.0)), ENC_ID),
            ("bound-absent", KIND_INTEGER, None, ENC_ID),
            ("no-integer-in-bound", KIND_INTEGER, Some((0.2, 0.8)), ENC_ID),
            ("bound-nan", KIND_INTEGER, Some((nan, nan)), ENC_ID),
            ("bound-lower-nan", KIND_INTEGER, Some((nan, 3.0)), ENC_ID),
            ("bound-upper-nan", KIND_INTEGER, Some((0.0, nan)), ENC_ID),
        ];
        for (what, kind, bound, id) in errs {
            check_case(l, &Case::Error { what: what.to_string(), kind, bound: bound.map(|(a, b)| (X(a), X(b))), id, pre_fix: None });
            // the same condition after the variable (or another one) was fixed by partial evaluation
            for pf in [(ENC_ID, 1.0), (9, 0.5)] {
                check_case(l, &Case::Error { what: what.to_string(), kind, bound: bound.map(|(a, b)| (X(a), X(b))), id, pre_fix: Some((pf.0, X(pf.1))) });
            }
        }
        let inf = f64::INFINITY;
        for (lo, up) in [(0.0, inf), (-inf, 5.0), (-inf, inf), (0.5, inf)] {
            check_case(l, &Case::Infinite { lower: X(lo), upper: X(up) });
        }
    });
    ctx.assume("All 2^n bit patterns are covered through the subset-sum set of the returned coefficients (dynamic programming over the exact integer coefficients is the same set as enumerating the patterns); for widths <= 64 the SDK's own Linear::evaluate is additionally run on every pattern.");
    Finish {
        level: "model_checking",
        rule: "every width 0..=W x 8 lower ends x fractional offsets on both ends by brute force over all bit patterns; every width up to 2^21 (quick 2^17) at three lower ends through the complete-sequence criterion (cross-validated against brute force on all widths <= W); registration of the fresh binaries; widths 0..=129 and every error condition again after a real partial_evaluate fixed the encoded variable (at either end / the middle of its range) or another variable; a second call on the same variable; every error condition, the infinite bounds in an rlimit'd subprocess; non-trivial = width > 0 or an error condition".into(),
        bounds: json!({"brute_force_width_max": wmax, "criterion_width_max": big, "lower_ends": ["-2^20","-4097","-7","-1","0","1","5","2^20-w"], "fractional_offsets": fr}),
        exhaustive: true,
    }
}

pub fn replay(l: &mut Local, case: &serde_json::Value) -> Result<(), String> {
    let c: Case = serde_json::from_value(case.clone()).map_err(|e| e.to_string())?;
    check_case(l, &c);
    Ok(())
}

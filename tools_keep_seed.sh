#!/bin/bash
# usage: tools_keep_seed.sh <ID> <variant>  — copy a confirmed seed into /verif/seeded/<ID>-<variant>/
set -eu
ID="$1"; V="$2"; S=/tmp/seedwork/$ID/$V; D=/verif/seeded/$ID-$V
python3 -c "import json,sys; sys.exit(0 if json.load(open(sys.argv[1]))[\"confirmed\"]==1 else 1)" $S/confirm.json
mkdir -p $D
cp $S/patch.diff $S/demo.rs $D/
python3 - "$S" "$D" <<'PY'
import json,sys
s,d=sys.argv[1],sys.argv[2]
m=json.load(open(s+'/meta.json'))
m['confirmed_by_me']=json.load(open(s+'/confirm.json'))
m['base_commit']=open('/tmp/seedwork/base_commit').read().strip() if __import__('os').path.exists('/tmp/seedwork/base_commit') else None
json.dump(m,open(d+'/meta.json','w'),indent=1)
PY
echo kept $D

#!/bin/bash
# usage: tools_confirm_seed.sh <ID> <variant>   (uses /tmp/seedwork/<ID>/<variant> and worktree /tmp/wt-<ID>)
# Confirms: patch applies+compiles, 102 lib tests pass with it, demo fails with it and passes without it.
set -u
ID="$1"; V="$2"; D=/tmp/seedwork/$ID/$V; WT=/tmp/wt-$ID
lc=$(echo "$ID" | tr A-Z a-z); vlc=$(echo "$V" | tr A-Z a-z)
T=demo_${lc}_${vlc}
cd "$WT" || exit 2
git checkout -q -- . ; rm -f rust/ommx/tests/demo_*.rs
mkdir -p rust/ommx/tests; cp "$D/demo.rs" rust/ommx/tests/$T.rs
res_clean=$(cargo test -p ommx --offline --test $T 2>&1 | grep -E "^test result|^error" | head -3)
git apply "$D/patch.diff" || { echo "$ID/$V: PATCH DOES NOT APPLY"; exit 1; }
res_mut=$(cargo test -p ommx --offline --test $T 2>&1 | grep -E "^test result|^error" | head -3)
res_suite=$(cargo test -p ommx --lib --offline 2>&1 | grep -E "^test result|^error" | head -3)
git checkout -q -- . ; rm -f rust/ommx/tests/$T.rs
echo "$ID/$V demo(clean): $res_clean"
echo "$ID/$V demo(mutant): $res_mut"
echo "$ID/$V suite(mutant): $res_suite"
ok=1
echo "$res_clean" | grep -q "test result: ok" || ok=0
echo "$res_mut" | grep -q "FAILED" || ok=0
echo "$res_suite" | grep -q "ok. 102 passed" || ok=0
echo "$ID/$V CONFIRMED=$ok"
RC="$res_clean" RM="$res_mut" RS="$res_suite" OK="$ok" python3 -c 'import json,os; json.dump({"demo_clean":os.environ["RC"],"demo_mutant":os.environ["RM"],"suite_mutant":os.environ["RS"],"confirmed":int(os.environ["OK"])}, open(os.environ.get("OUT","/dev/stdout"),"w"))' > $D/confirm.json

#!/bin/bash
# One-time offline build of the harness (MANIFEST.setup_cmd).
set -e
cd "$(dirname "$0")"
export CARGO_NET_OFFLINE=true
export CARGO_TARGET_DIR=/verif/target
(cd mc && cargo build --release --offline 2>&1 | tail -3)
test -x /verif/target/release/ommx-mc

#!/bin/bash
# usage: tools_process_seeds.sh <ID> <variant>...   confirm in the scratch worktree, keep, then run the quick check against each
ID="$1"; shift
cd /verif
for V in "$@"; do
  ./tools_confirm_seed.sh $ID $V > /tmp/seedwork/confirm_${ID}_$V.log 2>&1
  if grep -q "CONFIRMED=1" /tmp/seedwork/confirm_${ID}_$V.log; then
    ./tools_keep_seed.sh $ID $V > /dev/null
  else
    echo "$ID-$V NOT CONFIRMED: $(grep -E 'demo|suite|PATCH' /tmp/seedwork/confirm_${ID}_$V.log | tr '\n' ' ' | cut -c1-300)"
  fi
done
git -C /repo worktree remove --force /tmp/wt-$ID 2>/dev/null
for V in "$@"; do
  [ -d seeded/$ID-$V ] || continue
  res=$(./tools_try_seed.sh /verif/seeded/$ID-$V/patch.diff $ID quick 2>&1)
  rc=$(echo "$res" | grep -oE "exit=[0-9]+" | tail -1)
  sigs=$(echo "$res" | grep -oE "signature=[^ ]+" | sed 's/signature=//' | sort -u | head -4 | tr '\n' ' ')
  if [ "$rc" = "exit=1" ]; then det=yes; elif [ "$rc" = "exit=0" ]; then det="**NO**"; else det="engine error ($rc)"; fi
  echo "| $ID-$V | $ID | $det | $sigs |" > seeded/$ID-$V/result.txt
  echo "$ID-$V $rc $sigs"
done

#!/bin/bash
# usage: tools_try_seed.sh <patch.diff> <ID> [tier]   — apply a seeded change to /repo, run the check, undo.
set -u
export VERIF_EVIDENCE_DIR=/tmp/ommx-mc-seed-evidence
PATCH="$1"; ID="$2"; TIER="${3:-quick}"
cd /repo || exit 2
if ! git diff --quiet; then echo "repo dirty"; exit 2; fi
git apply "$PATCH" || { echo "patch does not apply"; exit 2; }
(cd /verif && ./check "$ID" "$TIER"; echo "exit=$?")
git -C /repo checkout -- . 

#!/bin/bash
# Applies every kept seeded change to /repo in turn, runs the quick check of its property, undoes it,
# and writes /verif/seeded/RESULTS.md. Usage: tools_run_all_seeds.sh [tier]
TIER="${1:-quick}"
export VERIF_EVIDENCE_DIR=/tmp/ommx-mc-seed-evidence
cd /verif
out=seeded/RESULTS.md
echo "# Seeded changes vs checks (tier: $TIER)" > $out
echo "" >> $out
echo "| seed | property | detected | signatures reported |" >> $out
echo "|---|---|---|---|" >> $out
for d in seeded/C*-*/; do
  s=$(basename $d); id=${s%%-*}
  if ! git -C /repo diff --quiet; then echo "repo dirty"; exit 2; fi
  git -C /repo apply /verif/$d/patch.diff || { echo "| $s | $id | PATCH DOES NOT APPLY | |" >> $out; continue; }
  res=$(./check $id $TIER 2>&1)
  rc=$?
  git -C /repo checkout -- .
  sigs=$(echo "$res" | grep -oE "signature=[^ ]+" | sed 's/signature=//' | sort -u | head -6 | tr '\n' ' ')
  if [ $rc -eq 1 ]; then det=yes; elif [ $rc -eq 0 ]; then det="**NO**"; else det="engine error ($rc)"; fi
  echo "| $s | $id | $det | $sigs |" >> $out
  echo "$s rc=$rc"
done
./check C01 quick > /dev/null 2>&1 # rebuild against the clean tree

#!/bin/bash
# Applies kept seeded changes to /repo in turn, runs the quick check of the seed's property, undoes it,
# records one line per seed in seeded/<seed>/result.txt and regenerates /verif/seeded/RESULTS.md from
# all result.txt files.
# Usage: tools_run_all_seeds.sh [tier] [ID ...]     (no IDs = every property; IDs = only seeds of those)
TIER="${1:-quick}"; shift
export VERIF_EVIDENCE_DIR=/tmp/ommx-mc-seed-evidence
ONLY=" $* "
cd /verif
for d in seeded/C*-*/; do
  s=$(basename $d); id=${s%%-*}
  if [ "$ONLY" != "  " ] && [[ "$ONLY" != *" $id "* ]]; then continue; fi
  if ! git -C /repo diff --quiet; then echo "repo dirty"; exit 2; fi
  if ! git -C /repo apply /verif/$d/patch.diff; then echo "| $s | $id | PATCH DOES NOT APPLY | |" > $d/result.txt; continue; fi
  res=$(./check $id $TIER 2>&1)
  rc=$?
  git -C /repo checkout -- .
  sigs=$(echo "$res" | grep -oE "signature=[^ ]+" | sed 's/signature=//' | sort -u | head -6 | tr '\n' ' ')
  if [ $rc -eq 1 ]; then det=yes; elif [ $rc -eq 0 ]; then det="**NO**"; else det="engine error ($rc)"; fi
  echo "| $s | $id | $det | $sigs |" > $d/result.txt
  echo "$s rc=$rc"
done
out=seeded/RESULTS.md
{
  echo "# Seeded changes vs checks (tier: $TIER)"
  echo ""
  echo "| seed | property | detected | signatures reported |"
  echo "|---|---|---|---|"
  cat seeded/C*-*/result.txt 2>/dev/null
} > $out
./check C01 quick > /dev/null 2>&1 # rebuild against the clean tree

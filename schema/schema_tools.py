#!/usr/bin/env python3
"""Schema models for C07 (python3 standard library only).

    schema_tools.py <repo_root>

prints one JSON object:
  model   : schema model parsed from proto/ommx/v1/*.proto (own recursive-descent parser)
  rust    : the same model scraped from the prost attributes of rust/ommx/src/ommx.v1.rs
  python  : the same model decoded from the serialized FileDescriptorProto embedded in
            python/ommx/ommx/v1/*_pb2.py (own wire decoder; no protobuf runtime is installed)
  pyi     : field-number constants listed per class in the .pyi stubs
  diffs   : list of {binding, message, detail} for every disagreement with `model`

Normal form of a field: {name, number, type, label, oneof}
  type  : scalar name | "message:<fqn>" | "enum:<fqn>" | "map<k,v>" (v again a type)
  label : singular | optional | repeated | map | oneof
"""
import ast
import glob
import json
import os
import re
import sys

SCALARS = {"double", "float", "int32", "int64", "uint32", "uint64", "sint32", "sint64", "fixed32", "fixed64",
           "sfixed32", "sfixed64", "bool", "string", "bytes"}


# ----------------------------------------------------------------------------------------------
# .proto parser
# ----------------------------------------------------------------------------------------------

def tokenize(src):
    src = re.sub(r"/\*.*?\*/", " ", src, flags=re.S)
    src = re.sub(r"//[^\n]*", " ", src)
    return re.findall(r'"(?:[^"\\]|\\.)*"|[A-Za-z_][A-Za-z0-9_.]*|-?\d+|[{}\[\]<>=;,()]', src)


class ProtoParser:
    def __init__(self, toks):
        self.t = toks
        self.i = 0
        self.package = ""
        self.messages = {}  # fqn -> {"fields": [...], "scope": fqn}
        self.enums = {}  # fqn -> {name: number}

    def peek(self):
        return self.t[self.i] if self.i < len(self.t) else None

    def next(self):
        tok = self.t[self.i]
        self.i += 1
        return tok

    def expect(self, tok):
        got = self.next()
        if got != tok:
            raise SyntaxError(f"expected {tok!r}, got {got!r} at token {self.i}")

    def skip_options(self):
        if self.peek() == "[":
            depth = 0
            while True:
                tok = self.next()
                if tok == "[":
                    depth += 1
                elif tok == "]":
                    depth -= 1
                    if depth == 0:
                        return

    def parse_file(self):
        while self.peek() is not None:
            tok = self.next()
            if tok == "syntax":
                self.expect("=")
                self.next()
                self.expect(";")
            elif tok == "package":
                self.package = self.next()
                self.expect(";")
            elif tok == "import":
                if self.peek() in ("public", "weak"):
                    self.next()
                self.next()
                self.expect(";")
            elif tok == "option":
                while self.next() != ";":
                    pass
            elif tok == "message":
                self.parse_message(self.package)
            elif tok == "enum":
                self.parse_enum(self.package)
            elif tok == ";":
                pass
            else:
                raise SyntaxError(f"unexpected top-level token {tok!r}")

    def parse_enum(self, scope):
        name = self.next()
        fqn = f"{scope}.{name}"
        self.expect("{")
        values = {}
        while self.peek() != "}":
            tok = self.next()
            if tok == "option":
                while self.next() != ";":
                    pass
                continue
            if tok == "reserved":
                while self.next() != ";":
                    pass
                continue
            self.expect("=")
            values[tok] = int(self.next())
            self.skip_options()
            self.expect(";")
        self.expect("}")
        self.enums[fqn] = values

    def parse_field(self, scope, fields, first, oneof=None):
        label = "oneof" if oneof else "singular"
        tok = first
        if tok in ("optional", "repeated"):
            label = tok
            tok = self.next()
        if tok == "map":
            self.expect("<")
            k = self.next()
            self.expect(",")
            v = self.next()
            self.expect(">")
            ftype = ("map", k, v)
            label = "map"
        else:
            ftype = tok
        name = self.next()
        self.expect("=")
        number = int(self.next())
        self.skip_options()
        self.expect(";")
        fields.append({"name": name, "number": number, "raw_type": ftype, "label": label, "oneof": oneof, "scope": scope})

    def parse_message(self, scope):
        name = self.next()
        fqn = f"{scope}.{name}"
        self.expect("{")
        fields = []
        self.messages[fqn] = {"fields": fields}
        while self.peek() != "}":
            tok = self.next()
            if tok == "message":
                self.parse_message(fqn)
            elif tok == "enum":
                self.parse_enum(fqn)
            elif tok == "oneof":
                oname = self.next()
                self.expect("{")
                while self.peek() != "}":
                    t2 = self.next()
                    if t2 == "option":
                        while self.next() != ";":
                            pass
                        continue
                    self.parse_field(fqn, fields, t2, oneof=oname)
                self.expect("}")
            elif tok in ("option", "reserved", "extensions"):
                while self.next() != ";":
                    pass
            elif tok == ";":
                pass
            else:
                self.parse_field(fqn, fields, tok)
        self.expect("}")


def resolve(name, scope, messages, enums):
    if name in SCALARS:
        return name
    if name.startswith("."):
        cands = [name[1:]]
    else:
        parts = scope.split(".")
        cands = [".".join(parts[:k] + [name]) for k in range(len(parts), 0, -1)] + [name]
    for c in cands:
        if c in messages:
            return "message:" + c
        if c in enums:
            return "enum:" + c
    raise KeyError(f"cannot resolve type {name} in {scope}")


def proto_model(proto_dir):
    messages, enums = {}, {}
    parsers = []
    for path in sorted(glob.glob(os.path.join(proto_dir, "**", "*.proto"), recursive=True)):
        p = ProtoParser(tokenize(open(path).read()))
        p.parse_file()
        parsers.append(p)
        messages.update(p.messages)
        enums.update(p.enums)
    out = {"messages": {}, "enums": enums}
    for fqn, m in messages.items():
        fields = []
        for f in m["fields"]:
            rt = f["raw_type"]
            if isinstance(rt, tuple):
                t = f"map<{resolve(rt[1], f['scope'], messages, enums)},{resolve(rt[2], f['scope'], messages, enums)}>"
            else:
                t = resolve(rt, f["scope"], messages, enums)
            fields.append({"name": f["name"], "number": f["number"], "type": t, "label": f["label"], "oneof": f["oneof"]})
        out["messages"][fqn] = {"fields": sorted(fields, key=lambda x: x["number"])}
    return out


# ----------------------------------------------------------------------------------------------
# prost attribute scraper
# ----------------------------------------------------------------------------------------------

def snake(name):
    s = re.sub(r"(?<=[a-z0-9])([A-Z])", r"_\1", name)
    s = re.sub(r"([A-Z]+)([A-Z][a-z])", r"\1_\2", s)
    return s.lower()


RUST_SCALAR = {"double": "double", "float": "float", "int32": "int32", "int64": "int64", "uint32": "uint32", "uint64": "uint64",
               "sint32": "sint32", "sint64": "sint64", "fixed32": "fixed32", "fixed64": "fixed64", "sfixed32": "sfixed32",
               "sfixed64": "sfixed64", "bool": "bool", "string": "string", "bytes": "bytes"}


def rust_model(path, package="ommx.v1"):
    src = open(path).read()
    src = re.sub(r"//[^\n]*", "", src)
    # walk items with a brace-depth scanner, keeping a module stack
    items = []  # (module path list, kind, name, body)
    pos = 0
    mod_stack = []
    depth_stack = []
    depth = 0
    tok_re = re.compile(r"pub mod (\w+)\s*\{|pub struct (\w+)\s*\{|pub enum (\w+)\s*\{|impl[^{]*\{|\{|\}")
    pending_attrs_start = 0
    while True:
        m = tok_re.search(src, pos)
        if not m:
            break
        if m.group(1):
            mod_stack.append(m.group(1))
            depth_stack.append(depth)
            depth += 1
            pos = m.end()
            pending_attrs_start = pos
        elif m.group(2) or m.group(3):
            kind = "struct" if m.group(2) else "enum"
            name = m.group(2) or m.group(3)
            # find matching brace
            d = 1
            j = m.end()
            while d:
                if src[j] == "{":
                    d += 1
                elif src[j] == "}":
                    d -= 1
                j += 1
            attrs = src[pending_attrs_start:m.start()]
            items.append((list(mod_stack), kind, name, src[m.end():j - 1], attrs))
            pos = j
            pending_attrs_start = pos
        elif m.group(0).startswith("impl"):
            d = 1
            j = m.end()
            while d:
                if src[j] == "{":
                    d += 1
                elif src[j] == "}":
                    d -= 1
                j += 1
            items.append((list(mod_stack), "impl", m.group(0), src[m.end():j - 1], ""))
            pos = j
            pending_attrs_start = pos
        elif m.group(0) == "{":
            depth += 1
            pos = m.end()
        else:  # }
            depth -= 1
            if depth_stack and depth_stack[-1] == depth:
                depth_stack.pop()
                mod_stack.pop()
            pos = m.end()
            pending_attrs_start = pos
    structs = {}  # (mods tuple, name) -> body
    enums_src = {}
    for mods, kind, name, body, attrs in items:
        if kind == "struct":
            structs[(tuple(mods), name)] = body
        elif kind == "enum":
            enums_src[(tuple(mods), name)] = (body, attrs)
    # module name -> parent struct name (snake_case match among siblings)
    def fqn_of(mods, name):
        parts = []
        for k, mod in enumerate(mods):
            parent = [n for (ms, n) in list(structs) if ms == tuple(mods[:k]) and snake(n) == mod]
            if not parent:
                raise KeyError(f"module {mod} has no parent struct")
            parts.append(parent[0])
        return ".".join([package] + parts + [name])

    def resolve_rust_path(path, mods):
        path = path.strip()
        segs = [s for s in path.split("::") if s and s not in ("crate",)]
        cur = list(mods)
        while segs and segs[0] == "super":
            cur = cur[:-1]
            segs = segs[1:]
        name = segs[-1]
        cur = cur + segs[:-1]
        return tuple(cur), name

    head_re = re.compile(r"((?:#\[[^\]]*\]\s*)+)pub\s+(r#)?(\w+)\s*:\s*", re.S)

    def iter_fields(body):
        pos = 0
        while True:
            m = head_re.search(body, pos)
            if not m:
                return
            # the type runs to the first comma at angle-bracket depth 0
            j = m.end()
            d = 0
            while j < len(body) and not (body[j] == "," and d == 0):
                if body[j] == "<":
                    d += 1
                elif body[j] == ">":
                    d -= 1
                j += 1
            yield m.group(1), m.group(2), m.group(3), body[m.end():j]
            pos = j
    out = {"messages": {}, "enums": {}, "rust_field_names": {}}
    oneof_defs = {}
    for (mods, name), (body, attrs) in enums_src.items():
        if "::prost::Oneof" in attrs:
            arms = []
            for am in re.finditer(r"#\[prost\(([^)]*)\)\]\s*(\w+)\(([^)]*)\)", body):
                arms.append((am.group(1), am.group(2), am.group(3)))
            oneof_defs[(mods, name)] = arms
        elif "::prost::Enumeration" in attrs:
            values = {}
            for vm in re.finditer(r"(\w+)\s*=\s*(-?\d+)", body):
                values[vm.group(1)] = int(vm.group(2))
            out["enums"][fqn_of(list(mods), name)] = {"variants": values, "names": {}}
    # as_str_name tables
    for mods, kind, header, body, _ in items:
        if kind == "impl":
            tm = re.match(r"impl\s+(\w+)\s*\{", header)
            if tm and "as_str_name" in body:
                fq = fqn_of(list(mods), tm.group(1))
                sect = body[body.index("as_str_name"):]
                sect = sect[:sect.index("from_str_name")] if "from_str_name" in sect else sect
                for am in re.finditer(r"\w+::(\w+)\s*=>\s*\"(\w+)\"", sect):
                    out["enums"][fq]["names"][am.group(1)] = am.group(2)

    def type_from_attr(kind_word, rust_type, mods):
        if kind_word in RUST_SCALAR:
            return RUST_SCALAR[kind_word]
        if kind_word == "message":
            inner = rust_type.strip()
            # peel generic wrappers (Option<..>, Vec<..>, Box<..>, HashMap<K, V>): keep the last argument
            while "<" in inner:
                inner = inner[inner.index("<") + 1:inner.rindex(">")]
                d = 0
                last = 0
                for k, ch in enumerate(inner):
                    if ch == "<":
                        d += 1
                    elif ch == ">":
                        d -= 1
                    elif ch == "," and d == 0:
                        last = k + 1
                inner = inner[last:].strip()
            ms, n = resolve_rust_path(inner, mods)
            return "message:" + fqn_of(list(ms), n)
        raise KeyError(kind_word)

    for (mods, name), body in structs.items():
        fqn = fqn_of(list(mods), name)
        fields = []
        names = {}
        for attrs, _, ident, rtype in iter_fields(body):
            pm = re.search(r"#\[prost\(([^\]]*)\)\]", attrs, re.S)
            if not pm:
                continue
            spec = pm.group(1)
            deprecated = "#[deprecated]" in attrs
            if spec.startswith("oneof"):
                om = re.match(r'oneof\s*=\s*"([^"]+)"\s*,\s*tags\s*=\s*"([^"]+)"', spec)
                ms, n = resolve_rust_path(om.group(1), list(mods))
                tags = [int(x) for x in om.group(2).split(",")]
                arms = oneof_defs[(ms, n)]
                arm_tags = []
                for (aspec, variant, vtype) in arms:
                    tag = int(re.search(r'tag\s*=\s*"(\d+)"', aspec).group(1))
                    arm_tags.append(tag)
                    kw = aspec.split(",")[0].strip()
                    if kw.startswith("enumeration"):
                        ems, en = resolve_rust_path(re.search(r'enumeration\s*=\s*"([^"]+)"', aspec).group(1), list(ms))
                        t = "enum:" + fqn_of(list(ems), en)
                    else:
                        t = type_from_attr(kw, vtype, list(ms))
                    fields.append({"name": snake(variant), "number": tag, "type": t, "label": "oneof", "oneof": ident})
                    names[snake(variant)] = ident
                if sorted(tags) != sorted(arm_tags):
                    fields.append({"name": f"<oneof {ident} tags attribute {tags} != arms {arm_tags}>", "number": -1, "type": "?", "label": "oneof", "oneof": ident})
                continue
            tag = int(re.search(r'tag\s*=\s*"(\d+)"', spec).group(1))
            parts = [p.strip() for p in re.split(r",(?![^\"]*\"(?:[^\"]*\"[^\"]*\")*[^\"]*$)", spec)]
            kw = parts[0]
            label = "singular"
            if "repeated" in parts:
                label = "repeated"
            elif "optional" in parts:
                label = "optional"
            if kw.startswith("map"):
                mm = re.search(r'map\s*=\s*"([^"]+)"', spec)
                k, v = [x.strip() for x in mm.group(1).split(",")]
                if v.startswith("enumeration"):
                    ems, en = resolve_rust_path(re.search(r"enumeration\((.*)\)", v).group(1), list(mods))
                    vt = "enum:" + fqn_of(list(ems), en)
                elif v == "message":
                    vt = type_from_attr("message", rtype, list(mods))
                else:
                    vt = RUST_SCALAR[v]
                t = f"map<{RUST_SCALAR[k]},{vt}>"
                label = "map"
            elif kw.startswith("enumeration"):
                ems, en = resolve_rust_path(re.search(r'enumeration\s*=\s*"([^"]+)"', spec).group(1), list(mods))
                t = "enum:" + fqn_of(list(ems), en)
            else:
                t = type_from_attr(kw, rtype, list(mods))
                # message fields are `optional` in prost for singular proto3 message fields too
            fields.append({"name": ident, "number": tag, "type": t, "label": label, "oneof": None, "deprecated": deprecated})
            names[ident] = ident
        out["messages"][fqn] = {"fields": sorted(fields, key=lambda x: x["number"])}
        out["rust_field_names"][fqn] = names
    return out


# ----------------------------------------------------------------------------------------------
# descriptor decoder for *_pb2.py
# ----------------------------------------------------------------------------------------------

def read_varint(b, i):
    shift = 0
    val = 0
    while True:
        c = b[i]
        i += 1
        val |= (c & 0x7F) << shift
        if not c & 0x80:
            return val, i
        shift += 7


def wire_fields(b):
    i = 0
    out = []
    while i < len(b):
        key, i = read_varint(b, i)
        num, wt = key >> 3, key & 7
        if wt == 0:
            v, i = read_varint(b, i)
        elif wt == 1:
            v = b[i:i + 8]
            i += 8
        elif wt == 2:
            n, i = read_varint(b, i)
            v = b[i:i + n]
            i += n
        elif wt == 5:
            v = b[i:i + 4]
            i += 4
        else:
            raise ValueError(f"wire type {wt}")
        out.append((num, wt, v))
    return out


PB_TYPES = {1: "double", 2: "float", 3: "int64", 4: "uint64", 5: "int32", 6: "fixed64", 7: "fixed32", 8: "bool", 9: "string",
            12: "bytes", 13: "uint32", 15: "sfixed32", 16: "sfixed64", 17: "sint32", 18: "sint64"}


def decode_descriptor(b, scope, messages, enums, map_entries):
    name = None
    fields = []
    nested = []
    enum_defs = []
    oneofs = []
    is_map_entry = False
    for num, wt, v in wire_fields(b):
        if num == 1:
            name = v.decode()
        elif num == 2:
            fields.append(v)
        elif num == 3:
            nested.append(v)
        elif num == 4:
            enum_defs.append(v)
        elif num == 8:
            oneofs.append([x for n, _, x in wire_fields(v) if n == 1][0].decode())
        elif num == 7:
            for n, _, x in wire_fields(v):
                if n == 7 and x:
                    is_map_entry = True
    fqn = f"{scope}.{name}"
    for e in enum_defs:
        decode_enum(e, fqn, enums)
    for nb in nested:
        decode_descriptor(nb, fqn, messages, enums, map_entries)
    flds = []
    for fb in fields:
        f = {"oneof_index": None, "proto3_optional": False, "type_name": None, "deprecated": False}
        for num, wt, v in wire_fields(fb):
            if num == 1:
                f["name"] = v.decode()
            elif num == 3:
                f["number"] = v
            elif num == 4:
                f["label"] = v
            elif num == 5:
                f["type"] = v
            elif num == 6:
                f["type_name"] = v.decode()
            elif num == 9:
                f["oneof_index"] = v
            elif num == 17:
                f["proto3_optional"] = bool(v)
            elif num == 8:
                for n, _, x in wire_fields(v):
                    if n == 3 and x:
                        f["deprecated"] = True
        flds.append(f)
    if is_map_entry:
        map_entries[fqn] = flds
    messages[fqn] = {"raw_fields": flds, "oneofs": oneofs, "map_entry": is_map_entry}


def decode_enum(b, scope, enums):
    name = None
    values = {}
    for num, wt, v in wire_fields(b):
        if num == 1:
            name = v.decode()
        elif num == 2:
            vn, vv = None, 0
            for n, _, x in wire_fields(v):
                if n == 1:
                    vn = x.decode()
                elif n == 2:
                    vv = x
            values[vn] = vv
    enums[f"{scope}.{name}"] = values


def python_model(pydir):
    messages, enums, map_entries = {}, {}, {}
    for path in sorted(glob.glob(os.path.join(pydir, "*_pb2.py"))):
        tree = ast.parse(open(path).read())
        blob = None
        for node in ast.walk(tree):
            if isinstance(node, ast.Call) and getattr(node.func, "attr", "") == "AddSerializedFile":
                blob = ast.literal_eval(node.args[0])
        if blob is None:
            raise ValueError(f"no serialized descriptor in {path}")
        package = ""
        for num, wt, v in wire_fields(blob):
            if num == 2:
                package = v.decode()
        for num, wt, v in wire_fields(blob):
            if num == 4:
                decode_descriptor(v, package, messages, enums, map_entries)
            elif num == 5:
                decode_enum(v, package, enums)
    out = {"messages": {}, "enums": enums}

    def tname(f):
        if f["type"] == 11:
            return "message:" + f["type_name"].lstrip(".")
        if f["type"] == 14:
            return "enum:" + f["type_name"].lstrip(".")
        return PB_TYPES[f["type"]]

    for fqn, m in messages.items():
        if m["map_entry"]:
            continue
        fields = []
        for f in m["raw_fields"]:
            label = "repeated" if f["label"] == 3 else "singular"
            oneof = None
            t = tname(f)
            if f["type"] == 11 and f["type_name"].lstrip(".") in map_entries:
                kv = {x["name"]: x for x in map_entries[f["type_name"].lstrip(".")]}
                t = f"map<{tname(kv['key'])},{tname(kv['value'])}>"
                label = "map"
            elif f["proto3_optional"]:
                label = "optional"
            elif f["oneof_index"] is not None:
                label = "oneof"
                oneof = m["oneofs"][f["oneof_index"]]
            fields.append({"name": f["name"], "number": f["number"], "type": t, "label": label, "oneof": oneof, "deprecated": f["deprecated"]})
        out["messages"][fqn] = {"fields": sorted(fields, key=lambda x: x["number"])}
    return out


def pyi_model(pydir, package="ommx.v1"):
    out = {}
    for path in sorted(glob.glob(os.path.join(pydir, "*_pb2.pyi"))):
        stack = []  # (indent, name)
        for line in open(path):
            if not line.strip():
                continue
            indent = len(line) - len(line.lstrip())
            while stack and stack[-1][0] >= indent:
                stack.pop()
            m = re.match(r"\s*class (\w+)\(", line)
            if m:
                stack.append((indent, m.group(1)))
                out.setdefault(".".join([package] + [s[1] for s in stack]), {"field_numbers": {}, "enum_values": []})
                continue
            m = re.match(r"\s*(\w+)_FIELD_NUMBER\s*:", line)
            if m and stack:
                out[".".join([package] + [s[1] for s in stack])]["field_numbers"][m.group(1).lower()] = True
    return out


# ----------------------------------------------------------------------------------------------
# comparison
# ----------------------------------------------------------------------------------------------

def norm_field(f, binding):
    label = f["label"]
    # prost marks singular message fields `optional` (explicit presence is inherent for messages):
    # the schema's `singular` message field and `optional` message field are the same wire contract
    if binding == "rust" and label == "optional" and f["type"].startswith("message:"):
        label = "message-presence"
    if binding != "rust" and f["type"].startswith("message:") and label in ("singular", "optional"):
        label = "message-presence"
    return (f["number"], f["name"], f["type"], label, f.get("oneof"))


def upper_camel(name):
    """prost / heck ToUpperCamelCase of a proto identifier (SOS1 -> Sos1, OneHot -> OneHot)."""
    words = re.findall(r"[A-Z]+(?![a-z])|[A-Z]?[a-z0-9]+|[0-9]+", name)
    # digits stick to the preceding word
    out = []
    for w in re.findall(r"[A-Z]+[0-9]*(?![a-z])|[A-Z]?[a-z]+[0-9]*|[0-9]+", name):
        out.append(w[0].upper() + w[1:].lower())
    return "".join(out)


def rust_names(model):
    """schema fqn -> fqn under prost's renaming of message identifiers"""
    def conv(fqn):
        parts = fqn.split(".")
        return ".".join(parts[:2] + [upper_camel(p) for p in parts[2:]])
    return conv


def rename_types(other, mapping):
    """rewrite message / enum references of a binding model through `mapping` (binding fqn -> schema fqn)"""
    def fix(t):
        for pre in ("message:", "enum:"):
            if t.startswith(pre) and t[len(pre):] in mapping:
                return pre + mapping[t[len(pre):]]
        if t.startswith("map<"):
            k, v = t[4:-1].split(",", 1)
            return f"map<{k},{fix(v)}>"
        return t
    out = {"messages": {}, "enums": {}}
    for fqn, m in other["messages"].items():
        out["messages"][mapping.get(fqn, fqn)] = {"fields": [dict(f, type=fix(f["type"])) for f in m["fields"]]}
    for fqn, e in other["enums"].items():
        out["enums"][mapping.get(fqn, fqn)] = e
    return out


def compare(model, other, binding):
    diffs = []
    if binding == "rust":
        conv = rust_names(model)
        mapping = {conv(fqn): fqn for fqn in list(model["messages"]) + list(model["enums"])}
        other = rename_types(other, mapping)
    for fqn, m in model["messages"].items():
        if fqn not in other["messages"]:
            diffs.append({"binding": binding, "message": fqn, "detail": "message type missing from the binding"})
            continue
        a = sorted(norm_field(f, "model") for f in m["fields"])
        b = sorted(norm_field(f, binding) for f in other["messages"][fqn]["fields"])
        if a != b:
            only_a = [x for x in a if x not in b]
            only_b = [x for x in b if x not in a]
            diffs.append({"binding": binding, "message": fqn, "detail": f"fields (number, name, type, label, oneof): schema has {only_a}, binding has {only_b}"})
    for fqn in other["messages"]:
        if fqn not in model["messages"]:
            diffs.append({"binding": binding, "message": fqn, "detail": "binding has a message type the schema does not define"})
    for fqn, values in model["enums"].items():
        if fqn not in other["enums"]:
            diffs.append({"binding": binding, "message": fqn, "detail": "enum missing from the binding"})
            continue
        o = other["enums"][fqn]
        if binding == "rust":
            # variant identifier -> number, and as_str_name table variant -> proto name
            by_name = {o["names"].get(var, f"<no name for {var}>"): num for var, num in o["variants"].items()}
            if by_name != values:
                diffs.append({"binding": binding, "message": fqn, "detail": f"enum values: schema {values}, binding {by_name}"})
            # prost-build naming rule: strip the enum-name prefix and CamelCase
            prefix = snake(fqn.split(".")[-1]).upper() + "_"
            for var, pname in o["names"].items():
                expect = "".join(w.capitalize() for w in (pname[len(prefix):] if pname.startswith(prefix) else pname).lower().split("_"))
                if expect != var:
                    diffs.append({"binding": binding, "message": fqn, "detail": f"variant {var} is named {pname} (expected identifier {expect})"})
        elif o != values:
            diffs.append({"binding": binding, "message": fqn, "detail": f"enum values: schema {values}, binding {o}"})
    return diffs


def main():
    root = sys.argv[1]
    model = proto_model(os.path.join(root, "proto"))
    rust = rust_model(os.path.join(root, "rust", "ommx", "src", "ommx.v1.rs"))
    pydir = os.path.join(root, "python", "ommx", "ommx", "v1")
    py = python_model(pydir)
    pyi = pyi_model(pydir)
    diffs = compare(model, rust, "rust") + compare(model, py, "python")
    for fqn, m in model["messages"].items():
        want = sorted(f["name"] for f in m["fields"])
        if fqn not in pyi:
            diffs.append({"binding": "pyi", "message": fqn, "detail": "class missing from the .pyi stubs"})
        else:
            got = sorted(pyi[fqn]["field_numbers"])
            if got != want:
                diffs.append({"binding": "pyi", "message": fqn, "detail": f"stub lists fields {got}, schema has {want}"})
    json.dump({"model": model, "rust": rust, "python": py, "pyi": pyi, "diffs": diffs}, sys.stdout)


if __name__ == "__main__":
    main()

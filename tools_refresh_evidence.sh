#!/bin/bash
# Re-runs every quick check on the CLEAN /repo tree so that the committed evidence/ describes exactly
# what a fresh restore reproduces. Run before every commit of /verif.
cd /verif
if ! git -C /repo diff --quiet; then echo "repo dirty"; exit 2; fi
unset VERIF_EVIDENCE_DIR
bad=0
for i in $(seq -w 1 20); do
  out=$(VERIF_SEED=1 ./check C$i quick 2>&1); rc=$?
  echo "C$i rc=$rc $(echo "$out" | grep -E '^\[C' | cut -c1-140)"
  [ $rc -ne 0 ] && bad=1
done
exit $bad

#!/usr/bin/env python3
"""Regenerates /verif/MANIFEST.json from the table below (single source of truth for the interface)."""
import json, os, sys

ROOT = os.path.dirname(os.path.abspath(__file__))

# property -> (category, text, level_note, technique)
CHECKS = {
    "C01": (
        "model_checking",
        "Bounded exhaustive exploration of the real Evaluate impls: every function message of a closed representation alphabet "
        "(all four variants + unset oneof, unsorted/repeated terms, all (row,col) positions, explicit zeros, absent/zero linear part, "
        "degree <= 4, up to 3 terms (thorough: 4-term linear, 3-entry quadratic over all values, more 3-term polynomials), ID extremes 0 and u64::MAX; long functions of every variant with 31..100 terms, distinct and repeating ids) x every state of a value grid (including states lacking exactly one occurring ID), through evaluate AND evaluate_samples of the Function and of the concrete type, "
        "compared bit-exactly with an independent exact-rational evaluator; a non-dyadic sub-alphabet is compared within a rigorous "
        "gamma_n rounding bound. Defects in term-wise accumulation are local, so the small scope contains every shape the code distinguishes.",
        "Trusted: num::BigRational, the harness's message readers (public fields only). Alphabet bounds are stated in the evidence; nothing outside them is claimed.",
        "bounded exhaustive enumeration of inputs on the real code vs exact-rational reference model",
    ),
    "C02": (
        "model_checking",
        "Every operator impl the API defines (about 120 Add/Sub/Mul/Neg impls over f64, &DecisionVariable, &Parameter, Linear, Quadratic, Polynomial, Function, "
        "incl. the macro-generated mixed and reversed ones, plus Sum/Product) is executed on every ordered pair of operand values from closed pools containing every "
        "representation quirk (unsorted/repeated terms, lower/upper triangle, explicit zeros, absent linear part, every oneof variant) from a pool with id extremes (0, 2^32+3 next to 3, u64::MAX) from a pool of long operands (33 / 65 terms) and, for sums and differences, from a pool with 2^-45 coefficients; the result message is read back "
        "through its public fields and must equal exact-rational polynomial arithmetic coefficient by coefficient; term iterators of operands and results must yield sorted ids summing to the polynomial.",
        "Trusted: num::BigRational and the harness readers. Quick tier traverses oversized pair grids with a fixed stride (recorded in evidence, exhaustive=false then); thorough covers the full grids. Unset-oneof Function operands are outside the alphabet (documented panic).",
        "bounded exhaustive enumeration of operator impl x operand pairs on the real code vs exact polynomial arithmetic",
    ),
    "C03": (
        "model_checking",
        "Every function message of the C01 representation alphabet (quick: <= 2 terms; thorough: <= 3 terms, ~10^5 messages) x states over a value grid x every split of the state into fixed/remaining (2^3) x every ordered two-step split (3^3 assignments), plus long functions (31..100 terms) under five fixed parts and a two-step split and small messages with ids 0 / 2^32+3 / u64::MAX, through the real partial_evaluate impls (Function and the concrete types, Constraint, RemovedConstraint); "
        "after each step: message polynomial == exact partial evaluation, no fixed id mentioned, returned id set between the non-zero-occurring and occurring fixed ids, evaluate(remainder) == exact value at the combined state, two steps == one step. "
        "Instances: product family (objective x active lists x removed x dependency none/single/chain) x in-bound states x all 2^4 splits x ordered two-step splits; structural comparison of every function and substituted_value, both orders and at-once compared, and the Solution of partial_evaluate+evaluate compared with the reference evaluator on the original at the combined state under every dependency-map order.",
        "Trusted: exact-rational Poly.partial, reference evaluator (refmodel/inst.rs). All values dyadic so comparison is bit-exact. Out-of-bound and incomplete states are C05's subject.",
        "bounded exhaustive enumeration of (message, state, split, order) on the real code vs exact partial evaluation",
    ),
    "C04": (
        "model_checking",
        "(1) Function::substitute on a function family x all 8^4 replacement maps over four keys (constant, linear, linear mentioning another replaced id, quadratic, zero, identity, an unnormalised linear listing an id twice, absent) vs exact simultaneous composition; long functions (31..100 terms) under four replacement maps; small functions and maps with ids 0 / 2^32+3 / u64::MAX. "
        "(2) Instance::substitute on an instance family (variable lists in and out of id order; replaced variables unbounded, or bounded so that the replacement values fall outside) x first map x optional second map (chains) x states, under every iteration order of the dependency map (hook H1): every function compared as polynomial, dependency map compared, Solution compared with the original instance evaluated at the completed state, evaluate_samples over two states compared with evaluate; log_encode->substitute->evaluate on all bit patterns. "
        "(3) Explicit enumeration of ALL dependency graphs on n<=3 (quick) / n<=4 (thorough, 16.7M graphs) dependents, each summing any subset of {dependents incl. itself, a valued variable, a value-less variable}, x all n! iteration orders, through the real Instance::evaluate (and once per graph Instance::evaluate_samples); oracle = Kahn topological evaluation: exact values when acyclic and grounded, Err otherwise; a watchdog turns a hang into a violation.",
        "Trusted: Poly.subst, Kahn oracle, hook H1 (sorts the bucket by key and applies the harness permutation; identity when unset). Instance-level replacements mention only remaining variables, as the property states.",
        "exhaustive enumeration of dependency graphs x iteration orders (schedules) and of replacement maps on the real code vs reference composition",
    ),
    "C05": (
        "model_checking",
        "Two product families of instances run through the real Instance::evaluate on every state of a per-instance alphabet and compared with an independent reference evaluator: (a) all (active, removed) constraint lists up to 2+2 whose values land on every side of the 1e-6 tolerance (-1,-2e-6,-5e-7,0,5e-7,1e-6,2e-6,1; both equalities; absent/unset functions; removal reasons incl. the empty string) x objectives x variable configurations; "
        "(b) all 17 kind x bound shapes (incl. binary [1,1] and [0,0]) for a used and for an irrelevant variable x pre-fixed variable x dependency none/single/chain/quadratic, states on the grid, at bound edges +-5e-8 (accepted) and +-2e-7 (rejected), each variable missing, an extra undefined id, a stale value supplied for a dependent variable, a different in-bound value still supplied for a variable fixed earlier through the real partial_evaluate (the fixed value must be the one reported); dependent values outside the dependent variable's declared bound. Oracle: objective, each constraint exactly once with value/equality/metadata/removal reason, both flags by the tolerance rule, reported state = given + fixed + dependent + nearest-to-zero fill, Err exactly for out-of-bound or missing used variables. Every dependency-map order is enumerated.",
        "Flags are asserted against the rule applied to the SDK-reported values, which are themselves compared with exact values. Values exactly at bound+-1e-7 are outside the alphabet (skipped_too_close_to_threshold must be 0).",
        "bounded exhaustive enumeration of (instance, state) on the real code vs reference evaluator",
    ),
    "C06": (
        "model_checking",
        "Every Samples message with k sample ids (every ordered set partition of the ids into entries x every assignment of one of 4 pool states to each entry; the pool contains a state omitting the irrelevant variable, two different states with equal objective and constraint values, and a duplicate; k<=3 quick / k<=4 thorough in full (thorough also k=5 in full on every 8th instance), k=5,6 over a 2-state pool, k=7,8 structured; plus every add_sample insertion order for k=3) over an instance family (irrelevant-variable bound shapes, pre-fixed variable whose value one pool state contradicts and which is followed by unused variables, a pool value 5e-8 beyond a bound (inside evaluate's tolerance), dependency none/single/chain, active+removed constraints (removal reasons incl. the empty string; a polynomial constraint with a monomial whose first factor is 0 in one pool state), constraint values exactly on the +-1e-6 tolerance, objectives in quirky representations: split constants, explicit zeros, degree-0 polynomials), through the real evaluate_samples and SampleSet::get; each extracted Solution compared field by field (and as a whole message) with Instance::evaluate of that sample's state; objective/feasibility/constraint tables must be keyed by exactly the submitted ids; samples whose state omits a variable the problem uses (alone, or beside a complete sample in either order) must make evaluate_samples fail exactly when Instance::evaluate fails on them.",
        "Differential oracle: Instance::evaluate, itself verified against the reference evaluator by C05. All pool states are in-bound; a state that evaluate rejects lacks a used variable.",
        "bounded exhaustive enumeration of Samples messages (all groupings) on the real code, differential vs the single-state path",
    ),
    "C09": (
        "model_checking",
        "Product of objectives(10) x active constraint lists (0..3; functions absent/constant/linear/quadratic; both equalities) x pre-existing removed lists (0..2) x {two non-contiguous variable-id layouts, dependency, hints, sense}, plus instances whose constraint ids sit at the top of the id space (u64::MAX-1, u64::MAX), plus every objective x constraint pair with the variable ids moved beyond 32 bits (2^32+1, 2^33+2, 2^40+9; their low halves are defined variables too), through penalty_method and uniform_penalty_method. Oracle: no active constraint left; every input constraint (previously removed ones included) kept with unchanged id/function/equality; one fresh weight parameter per penalised constraint tagged with its id, ids distinct from variable ids; variables/sense/dependencies carried over; objective == f + sum w_c*g_c^2 (resp. w*sum g_c^2) as a POLYNOMIAL IDENTITY in (x, w) computed in exact rationals (implies equality at every state and weight), plus with_parameters+evaluate on a weight x state grid.",
        "Penalised constraints are the input's active ones (already-removed constraints are kept, not penalised). Unset-oneof objectives are outside the alphabet (documented panic of Function arithmetic).",
        "bounded exhaustive enumeration of instances on the real code vs exact polynomial identity",
    ),
    "C10": (
        "model_checking",
        "Parametric instances whose objective and constraints range over the full representation alphabet (decision ids {1,2}, parameter ids {10,11}; declared sets {10,11} and {10,11,12} so a declared parameter may be unused or occur only in a removed constraint; parameter 11 carries no name or other metadata, parameter 10 all of it; hints are one-hot only or SOS1 only; a constraint without function before or after the one carrying parameters; removed-constraint metadata as the penalty method leaves it) x parameter assignments {complete, complete+unrelated extra, with a zero value, each single declared parameter missing (alone and with an unrelated extra id), empty, unrelated id only} through with_parameters. Oracle: exact partial evaluation of objective and active constraints; decision variables, sense, removed constraints, hints, dependencies unchanged; supplied values recorded; Err iff a declared parameter is missing; evaluate(x) == parametric functions at (x,p). Instance->ParametricInstance->with_parameters({}) round trip compared as problems (also for instances that record the parameters of an earlier instantiation).",
        "Trusted: Poly.partial. Previous `parameters` of an Instance are dropped by the conversion by documented design and are not compared.",
        "bounded exhaustive enumeration of (parametric instance, assignment) on the real code vs exact partial evaluation",
    ),
    "C11": (
        "model_checking",
        "Every objective message of the C01 representation alphabet over 3 binary variables (~10^5 messages: repeated ids inside monomials, x^2, cancelling terms, split constants, explicit zeros, lower/upper triangle) and deterministic all-monomial families for n=4..12, degree<=4: the PUBO dictionary and the QUBO matrix+offset are evaluated on ALL 2^n assignments in exact arithmetic against the objective; keys canonical (i<=j, strictly increasing sets), no stored zero coefficient, no duplicate key. Every refusal condition on every base: active constraint, maximise, each used variable made integer / continuous / semi-* / unspecified or left undefined, >2 distinct variables (QUBO); a removed constraint alone, a defined non-binary variable (each kind) that the objective does not use, and such a variable mentioned only by a removed constraint must not refuse.",
        "Refusal is not asserted for terms whose coefficient is exactly zero (property leaves it open). Sense unspecified is outside the alphabet.",
        "bounded exhaustive enumeration of objectives x all binary assignments on the real code vs exact evaluation",
    ),
    "C12": (
        "model_checking",
        "log_encode on every integer range: every width 0..=4096 x 8 lower ends (-2^20 .. 2^20-w) x fractional offsets {0,.25,.5,.75,1-5e-7} on both ends, the value set over ALL 2^n bit patterns computed as the subset-sum set of the returned integer coefficients and required to be exactly ceil(l)..floor(u) (for widths <= 64 additionally the SDK's own evaluate on every pattern); every width 1..2^21 at three lower ends through the complete-sequence criterion (necessary and sufficient for positive integers; cross-validated against brute force on all widths <= 4096). Registration of the new binaries (fresh ids under two list layouts that make last-element and list-length id schemes collide, kind binary, bound [0,1], tagged with the encoded id), single-integer range => constant; a second call on the same variable (same or changed bound) must again use fresh ids and cover the new range; widths 0..=129 and every error condition are repeated after a real partial_evaluate fixed the encoded variable (either end / middle of the range) or another variable. Every error condition: unknown id (also on an instance without variables), each non-integer kind (with bounds holding several integers or exactly one), absent bound, no integer in bound, NaN bounds, and the infinite bounds in an rlimit'd (1 GiB) subprocess with a 10 s watchdog, where abort/kill/timeout is the violating outcome; failed calls must leave the instance unchanged.",
        "Trusted: subset-sum DP over exact integer coefficients equals enumeration of bit patterns. Subprocess isolation via fork/exec of the harness binary with RLIMIT_AS.",
        "exhaustive enumeration of integer ranges x all bit patterns on the real code; fault enumeration of error conditions incl. subprocess-isolated non-termination",
    ),
    "C13": (
        "model_checking",
        "Every inequality f(x)<=0 with f = up to 2 (quick) / 3 (thorough) distinct monomials of degree<=2 + constant, coefficients {+-1,+-2,3,+-1/2,1/3,-2/3,3/4}, constants {-3,-1,-1/2,0,1/2,2}, over 1..3 integer/binary variables, every assignment of 5 boxes to the variables, Linear/Quadratic/Polynomial and unnormalised representations (a term listed twice in both id orders; the constant split over two degree-0 monomials), other constraints present in two list layouts (one in descending id order), a second conversion in the same instance on a sub-grid, two variable-list layouts; convert_inequality_to_equality_with_integer_slack x max_integer_range {1,3,100} and add_integer_slack_to_inequality x slack_upper_bound {1,2,5}. Oracle: brute force over EVERY lattice point of the box and EVERY slack value in the new variable's bounds: feasible set in x unchanged; slack integer, fresh id, bound [0,S], same constraint id, b reported = slack coefficient; moved-to-removed => constraint unchanged and satisfied everywhere; a linear inequality that holds on the whole box must be moved, not rejected, whatever the range limit; InfeasibleDetected => no clearly feasible lattice point; for linear f the determined outcomes are asserted in the converse direction too; rejections (unknown constraint id, a variable of f left undefined, equality field = 0 / unspecified / outside the enumeration, continuous and semi-continuous variable with both methods, range above limit) leave the instance unchanged.",
        "Feasibility at lattice points uses the 1e-6 rule on values that are multiples of 1/12 (far from the tolerance). add_integer_slack's exact-zero threshold with non-dyadic coefficients is not asserted at the boundary, nor is b == slack coefficient when b is rounding noise (<= 1e-12) of a non-dyadic unnormalised message (both counted as boundary_cases_not_asserted). slack_upper_bound=0 and unbounded variables are outside the alphabet.",
        "bounded exhaustive enumeration of inequalities x boxes with brute-force lattice/slack oracle on the real code",
    ),
    "C14": (
        "model_checking",
        "Explicit-state breadth-first search with stateright over the real Instance: from each of 14 initial instances (3 constraint-function sets with 3-4 constraints, 0/1/2/all initially removed, two more in which a variable that a constraint mentions carries a fixed value; thorough adds a 5-constraint set: 2.0e5 states, 5.9e6 transitions) every action relax(id, reason in {a, empty string}, params in {none,{k:v}}) / relax(id, a reason with leading and trailing whitespace) / restore(id) for every constraint id and the unknown id 99. The instance message is the whole state (dedup key = message bytes + reference model), so every history of any length is covered, not only length <= 8. Every transition is compared with a two-set reference model (op on an id not in the expected list must fail and leave the instance equal to its clone); every reachable state is checked: multiset of (id, function, equality, metadata) over active+removed unchanged, ids partitioned, recorded reasons/parameters, and on all 27 grid states per-constraint values and feasible equal the initial instance's while feasible_relaxed follows the currently active constraints; three incomplete states (each variable omitted) are accepted or rejected exactly as by the initial instance; evaluate_samples over all grid states reports the same two flags per sample (also through feasible_ids()) and rejects the incomplete states evaluate rejects.",
        "stateright 0.31 BFS; violations are collected through a side channel so exploration continues and every signature is reported; replay re-executes the recorded history without the explorer.",
        "explicit-state model checking (stateright BFS) of the real code with a reference model in lock-step",
    ),
    "C15": (
        "model_checking",
        "(a) as_minimization_problem on every objective of the medium representation family (plus objectives with 2^-60 coefficients, which exact negation keeps) x both senses, once and twice: sense, objective == +-f as exact polynomials, every other field untouched, idempotent, identical ranking of all pairs of grid states. (b) every sample set with k<=6 (quick) / k<=7 (thorough; k=8 over two objective values) samples where each sample independently takes one of 3 objective values (so ties occur) and one of 3 feasibility classes (infeasible / feasible for remaining constraints only / feasible for all), produced by the real evaluate_samples, x both senses x {current fields, legacy fields (tag 4 + tag 6) decoded by prost; for k<=4 also the older tag-4-only layout, id getters only} x {values grouped by state as evaluate_samples writes them, regrouped by value as another writer may}, for k<=4 also with objective values -inf / +inf, with values -2^-60 / 0 / 2^-60 and with the relaxed constraint carrying the empty reason (listed so, or after a real relax_constraint(id, \"\")): the returned id is feasible in the requested sense and unbeaten under the set's sense, Err exactly when no sample is feasible; feasible-id sets and the best Solution getters agree.",
        "Legacy = tag 4 holds remaining-constraint feasibility, tag 6 all-constraint feasibility, tag 7 absent. Unspecified sense and unset-oneof objectives are outside the alphabet.",
        "bounded exhaustive enumeration of (objective, sense) and of sample-set feasibility/objective patterns on the real code",
    ),
    "C16": (
        "model_checking",
        "All 26 valid intervals over endpoints {-inf,-2,-0.5,0,0.5,3,+inf} (thorough: 9 endpoints, 43 intervals): every ordered pair through + and * (also += and *=), powers 0..6, scaling/shifting by non-zero numbers incl. scaling by +-2^-60; each result must be a valid interval (no panic, no NaN, lower<=upper) enclosing the exact pointwise result for every alphabet point of the operands (corners, faces, interior, +-1000 on infinite sides). as_integer_bound on every 1/4-grid interval in [-3,3] (and infinite sides, and endpoints 1e-7 off the grid) containing an integer, and on every interval over +-1e300, +-3e19, +-1e19, +-2^63, +-2^53, 0, +-inf. evaluate_bound for a degree<=4 function family (all representations, repeated ids => powers) x every assignment of the 26 intervals or no entry to two variables x every grid point of the box, a third of the family again with ids u64::MAX and 0. content_factor for all reduced p/q with q,|p|<=60 in four representations, all ordered pairs (q<=12 quick, q<=60 thorough = 4.8M pairs) and triples from a small pool, against lcm(q)/gcd(p) exactly.",
        "All interval endpoints, points and coefficients are small dyadic rationals, so pointwise values are exact in f64. Scaling by 0 and as_integer_bound on integer-free intervals are excluded by the property.",
        "bounded exhaustive enumeration of intervals/boxes/points and of rational coefficient pairs on the real code vs exact arithmetic",
    ),
    "C08": (
        "fault_enumeration",
        "Every single fault at every position of each valid base instance (6 bases covering every kind, bounds present/absent, every function variant, active+removed constraints, one-hot and SOS1 hints (out of constraint-id order, two hints on one constraint), dependencies, parameters, description): set id_j := id_i for every ordered pair of variables and of constraints across active+removed; replace each id occurrence of each function (objective, constraints, removed constraints, dependencies) by an undefined id; unset each oneof; unset sense / objective / each constraint function / equality / kind / removed inner constraint; each of 5 invalid bound shapes on each variable; undefined / repeated ids at every position of the hints; undefined dependency key; neutral mutations - and EVERY ORDERED PAIR of those faults. Oracle: a reference validator that re-derives the set of violated rules from the mutated message: validate() must reject exactly when ids are duplicated or used ids undefined; TryFrom<v1::Instance> must accept exactly when no rule is violated and its error (RawParseError variant + outermost context field) must name a violated rule; accepted messages are compared field by field with the typed view (hook H2: ids, kinds, bounds with unset = unbounded / [0,1], constraints, removed constraints, dependencies, hints, parameters, description). The C03 instance family is the accepting-side corpus. ParametricInstance::validate with its own single/pair fault list, incl. three faults that break only the joint uniqueness of variable and parameter ids.",
        "Trusted: the reference validator (props/c08.rs) as the statement of the rules; hook H2 only returns references to the private fields. Hints naming a removed constraint are outside the alphabet.",
        "exhaustive single and pairwise fault injection on the real validators vs reference validator",
    ),
    "C17": (
        "model_checking",
        "Abstract LP/MIP models rendered by the harness's own free-format MPS writer and loaded by the real readers (load_raw_reader, load_zipped_reader, load_file on *.mps.gz and *.mps, load_file_bytes + decode): the FULL PRODUCT of 27 row specs (E/L/G x range none/+2/-2 x rhs none/4/-3) x 50 column specs (integer marker x 25 bound specs: none, UP, negative UP, LO, LO+UP in both orders, LO+negative UP in both orders, FX, MI, PL, FR, BV, LI, UI, MI+UP, MI+negative UP, LI+UI, LO 0+UP 1, UP 1e30, FX 1, LO 1+UP 1, LO -1+UP 1, UP 1, FX 0) for one row x one column under every layout (3/5-field lines, comment and blank lines incl. between OBJSENSE and its value line, wide separators) x 5 sense forms x 5 name styles (foreign / OMMX_-style / mixed for columns and rows, three objective row names) x objective constant x sparsity patterns; the full product of row and column specs for two rows x two columns; a fixed 5x6 model under all layouts; no-row models. The expected instance is computed from the abstract model (never by parsing) and compared by name: objective coefficients and constant (-RHS of the file's objective row), sense, one or two constraints per row by the RANGES table, effective domain per column (binary kind only for BV columns or integral columns with bounds exactly [0,1]), names / recovered ids. Fault files: undeclared row in COLUMNS / RANGES, unknown row / bound type, bad marker keyword, bad OBJSENSE word, unparsable numbers in every section, at every applicable line of a base file => Err, never a panic.",
        "Residual un-owned nondeterminism: HashSet/HashMap order inside the parser (cannot change a correct result as compared). Outside the alphabet: UP 0 without LO, RANGES 0, second N row, RHS on an undeclared row.",
        "bounded exhaustive enumeration of abstract models x layouts rendered by an independent writer, loaded by the real parser; fault enumeration for the error alphabet",
    ),
    "C18": (
        "model_checking",
        "Every linear instance of the product: 1..2 (quick) / 1..3 (thorough) used variables with ids {4,9,1} in rotated list order plus an unused variable with the largest id, each over 34 kind x bound specs (incl. endpoints exactly 0, degenerate and huge finite bounds, fractional bounds on integer variables, a bound whose ends need all 17 significant digits - that one and the 17-digit form in the one- and two-variable products only) (continuous/integer x {absent,[0,1],[-3,5],[2,inf),(-inf,4],(-inf,inf),[-5,-1],[0,0],[0,inf),[-3,0],(-inf,0],[1,1]}, binary x {absent,[0,1],[0,0],[1,1]}) x objective forms x constraint lists (0..2, = / <=, constant-only included, ids {40,3}) with function variants rotating over every message type able to hold a linear function incl. unnormalised ones (a term listed twice, unsorted) a 2^-60 coefficient and a form whose coefficient and constant are doubles that need 17 significant digits (0.1+0.2, -(0.7+0.1)), names on some variables / constraints, both senses; written with mps::write_file and read back with mps::load_file in a private scratch directory (file called *.mps.gz or *.mps). Oracle: same sense, objective and every constraint equal as polynomials under the same variable and constraint ids with the same equality, same effective value domain (integrality + bounds, unset = unbounded, binary = integer in [0,1]) for every mathematically used variable. One 150-variable x 80-constraint instance (several hundred KB of text). Nonlinear objective / constraint (4 shapes, each position) must be refused with the error variant naming the offender.",
        "Unnormalised (repeated-id) linear terms are outside the alphabet; variables not mathematically used are not compared (the property restricts to used variables).",
        "bounded exhaustive enumeration of linear instances through the real writer+reader round trip",
    ),
    "C19": (
        "model_checking",
        "Abstract QP models for EACH of the 120 problem-type codes (objective L/D/C/Q x variables C/B/M/I/G x constraints N/B/L/D/C/Q) x sizes up to n=5, m=4 (incl. m=0 under every constraint kind) x a deterministic sweep (210 quick / 840 thorough per code and size) that visits every value of every content dimension: Q0 diagonal / off-diagonal patterns, default b0 with non-defaults incl. an explicit zero, q0, per-constraint Qi / bi (constraints without linear entries: none / the last / the first / all), constraint sides finite / exactly at the infinity value / beyond it (also with the wrong sign) / equal, variable bounds likewise, variable types, names, infinity value 1e20 or 50, sense; 5 layouts (comment lines with ! # %, also indented, trailing text also after names, blank lines, trailing text after values, lower-case keywords, sparse sections in ascending or descending index order). Rendered by the harness's own QPLIB writer, loaded with qplib::load_file or qplib::load_file_bytes + decode. Expected problem from the model: objective 1/2 x'Q0x + b0'x + q0 assembled from the lower triangle (diagonal entry v -> v/2 x_i^2), one <=0 constraint per finite side with the right signs, unique constraint ids, variable kinds/bounds/names. Fault files on 6 representative codes x 2 layouts: each type-code character invalid, too short, invalid sense, every count non-numeric / negative / fractional, every number and entry value / index unparsable, and truncation after EVERY line => Err whose message carries the line number of the fault.",
        "Format assumption: the two trailing name sections are always written. Outside the alphabet: out-of-range indices, upper-triangle or repeated entries.",
        "bounded exhaustive enumeration of type codes x content sweep rendered by an independent writer; fault enumeration incl. every truncation point",
    ),
    "C20": (
        "model_checking",
        "Explicit exploration of add-operation histories: every sequence of length 0..3 (quick) / 0..4 (thorough, 70k archives) over the 16-action alphabet (4 layer kinds x {empty message whose bytes coincide across kinds so digests collide, non-trivial message with unsorted variable / constraint / parameter lists and repeated terms} x {no annotations, all annotations}) and longer histories (to 5 / 6) over a sub-alphabet; each history is replayed from scratch through the real Builder::new_archive_unnamed..build() into a local OCI archive in a private scratch directory, reopened with Artifact::from_oci_archive and compared with a Vec<(media type, bytes, annotations)> reference: manifest order / media types / sha256 digests (computed with sha2) / annotations; get_layer by digest; typed getter of the stored kind returns an equal message and annotations, the other three fail; unknown digest fails; per-kind descriptor sub-sequences; positional listings get_instances / get_solutions. Annotation accessors: every single field, every pair of fields and all fields at once for the four annotation types (title, 1 and 3-4 authors incl. an empty first name and names and titles with leading / trailing blanks, created with sub-second precision and non-UTC offsets, licence, dataset, counts, user keys (set twice; with an empty value), start/end, instance and solver digests, parameters) after the archive round trip. An image with a foreign artifact type, or a plain image manifest without artifactType, must not yield a manifest; archives written without the SDK's builder (ocipkg + the published media types and annotation keys, which are literals in the harness) must be readable; the stored hex under another digest algorithm is an unknown digest.",
        "With equal digests a digest-only lookup cannot distinguish layers: typed getters are asserted against the first layer with that digest (see evidence assumptions); positional listings are asserted strictly. No registry access (local archives only).",
        "explicit-state exploration of operation histories on the real builder/reader vs a Vec reference model",
    ),
    "C07": (
        "model_checking",
        "The model is the schema itself, parsed from proto/ommx/v1/*.proto by the harness's own parser (31 messages, 121 fields, 5 enums). (1) Binding the model to the implementations, exhaustively over every message / field / enum value: the prost attributes of rust/ommx/src/ommx.v1.rs (struct <-> message, field name, tag, type, optional/repeated/map/oneof, enum discriminants and as_str_name tables), the serialized FileDescriptorProto embedded in each python/ommx/ommx/v1/*_pb2.py (extracted with ast, decoded with the harness's own wire decoder) and the field lists of the .pyi stubs must all equal the model. (2) Every model state of every message type is replayed on the real prost code: every subset of field slots (all subsets for <= 8 slots, size <= 3 otherwise) x every alternative value per slot (repeated with 1-2 elements, maps with 1-2 entries, each oneof arm, nested messages populated one level deep and present-but-empty, every declared enum value and an undeclared one, explicit-presence defaults), encoded by the harness's own schema-driven encoder in 5 encodings (packed / unpacked repeated scalars, reversed field order, appended unknown fields of every wire type) -> M::decode must succeed -> the set of Rust fields that changed (read from the Debug rendering, which names every Rust field) must be exactly the fields sent and enum values must render as the schema's names -> encode_to_vec -> the harness's own decoder must recover the content with schema-conforming wire types -> decode(encode(m)) == m. (3) the byte-returning loaders mps::load_file_bytes / qplib::load_file_bytes must return bytes that decode to the loaded instance; data/random_lp_instance.ommx, written by an earlier release, must open, decode, validate and re-encode to an equal message; archives written by another conforming implementation (ocipkg + the published media types / annotation keys as literals) must be readable through the typed getters and positional listings, as one- and two-layer archives (every ordered pair of kind x empty / non-trivial message); the same pairs written by the SDK's own builder are read back through C20's sequence check.",
        "No Python protobuf runtime is installed: the Python classes are not executed; their embedded descriptors are compared statically. Trusted base of the static step (prost's derive honours its attributes) is exactly what the dynamic step checks. python3 (stdlib only) is used for the three schema scrapers.",
        "explicit enumeration of schema states replayed on the real codec through an independent codec, plus exhaustive static binding of the schema model to the generated bindings",
    ),
}

NOT_YET = "check not yet implemented in this revision of /verif (planned in DESIGN.md section 5)"

def main():
    props = [json.loads(l) for l in open(os.path.join(ROOT, "properties.jsonl"))]
    checks = []
    na = []
    for p in props:
        pid = p["id"]
        if pid in CHECKS:
            cat, text, note, tech = CHECKS[pid]
            checks.append({
                "property_id": pid,
                "quick_cmd": f"./check {pid} quick",
                "thorough_cmd": f"./check {pid} thorough",
                "evidence_file": f"/verif/evidence/{pid}.json",
                "replay_cmd_template": "./check --replay {path}",
                "engine": "ommx-mc",
                "level_claimed": {"category": cat, "text": text, "design_ref": f"DESIGN.md section 5, {pid}"},
                "level_note": note,
                "technique": tech,
            })
        else:
            na.append({"property_id": pid, "reason": NOT_YET})
    m = {
        "version": 1,
        "setup_cmd": "./setup.sh",
        "hooks": {
            "guard": "cargo feature `verif` of the ommx crate (cfg(feature = \"verif\"))",
            "enable": "the harness crate /verif/mc depends on ommx = { path = \"/repo/rust/ommx\", features = [\"verif\"] }; ./check rebuilds it (cargo build --release --offline) before every run",
            "baseline_off_cmd": "cd /repo && cargo nextest run --workspace --no-fail-fast --offline || cargo test --workspace --lib --bins --no-fail-fast --offline",
            "source_commits": HOOK_COMMITS,
            "add_only": True,
        },
        "engines": [{
            "name": "ommx-mc",
            "path": "/verif/mc",
            "serves_properties": sorted(CHECKS),
            "kind_free_text": "Rust harness linking the real ommx crate: odometer/product enumeration and explicit-state search (stateright) over bounded alphabets, exact-rational reference models in lock-step, signature-grouped violations with replay files",
        }],
        "checks": checks,
        "not_applicable": na,
        "notes": "All checks are bounded exhaustive explorations of the real implementation (sequential library: the model-checking family's 'every input / operation sequence / fault up to a bound against a reference model'). Exit 0 = held, 1 = VIOLATION line, 2 = machinery failure. Known findings live in /verif/known_findings.txt.",
    }
    json.dump(m, open(os.path.join(ROOT, "MANIFEST.json"), "w"), indent=1)
    print(f"MANIFEST.json: {len(checks)} checks, {len(na)} not_applicable")

HOOK_COMMITS = [
    "68b0955 verif hook H1: harness-controlled iteration order in eval_dependencies (feature verif)",
    "a666a15 verif hook H2: read access to typed Instance fields (feature verif)",
]

if __name__ == "__main__":
    main()

#!/usr/bin/env python3
"""Writes the briefs for one round of seeding sub-agents to /tmp/seedwork/prompt<round>_<ID>.txt.

usage: tools_gen_seed_prompts.py <round> <letter1> <letter2> [ID ...]

A brief contains ONLY: the property's title / statement / quantifier text, the mechanics of the
task, the aim of the round, and one-paragraph summaries of the changes earlier agents made for the
same property (so that ideas are not repeated). Nothing else from /verif is given to an agent.
"""
import glob
import json
import os
import sys

AIMS = {
    "4": (
        "This round, aim for changes in code the property depends on INDIRECTLY or on its less "
        "travelled clauses: (i) a shared helper (sorting, merging of repeated terms, id allocation, "
        "tolerance comparison, conversions between Linear / Quadratic / Polynomial / Function, From / "
        "Into / Default / iterator impls, parsing helpers) used by the property's functions, changed so "
        "that only particular inputs are affected; (ii) what is left in the OTHER fields of the result "
        "that the property says are preserved, recorded or reported (metadata, names, subscripts, "
        "parameters, descriptions, removed constraints, hints, dependency maps, ids, order-independent "
        "content of lists); (iii) error-path behaviour: which inputs are rejected, that a rejected call "
        "leaves its input unchanged, that an error is returned rather than a panic or a wrong result."
    ),
    "5": (
        "This round, aim for changes whose effect depends on the ORDER or MULTIPLICITY of things the "
        "property treats as unordered or unrestricted: the order of list elements in a message "
        "(variables, constraints, terms, samples, layers), ids that are large / non-contiguous / zero, "
        "the same id or key occurring in two places, an empty list or map, exactly one element, or "
        "two elements that are equal; or on a value sitting exactly on a boundary the code compares "
        "against (0, 1, a tolerance, an epsilon, i32/u32/u64 limits, infinity)."
    ),
    "6": (
        "This round, aim for a change in the LESS COMMON ENTRY POINT or VARIANT of an operation the "
        "property covers. An operation usually has several implementations that must agree: by-value vs "
        "by-reference operator impls, `op` vs `op_assign`, the impl on the concrete type (Linear, "
        "Quadratic, Polynomial) vs on the wrapping `Function`, single-state `evaluate` vs "
        "`evaluate_samples`, `load_file` vs `load_raw_reader` / the zipped reader, a `*_id` getter vs the "
        "getter returning the object, active vs removed constraints, Minimize vs Maximize, integer vs "
        "binary vs continuous kind, the linear part inside a Quadratic vs a stand-alone Linear, a typed "
        "struct vs the raw message. Change only ONE of them so that the variants disagree; or make a "
        "change that is only visible for the second and later elements of a list, on the second call, "
        "or for a non-first oneof arm / enum value."
    ),
    "7": (
        "This round, aim for PERFORMANCE-MOTIVATED or IDIOM-MOTIVATED rewrites that are almost but not "
        "quite equivalent: memoisation / caching across calls or across loop iterations; early exits "
        "and short-circuit evaluation; pre-sizing and reuse of buffers; replacing a BTreeMap by a "
        "HashMap or a Vec (or vice versa) where an ordering or uniqueness assumption hides; replacing "
        "a linear scan by an index or by sort + dedup; merging two passes into one or hoisting a "
        "computation out of a loop although it is not invariant; `retain` / `drain` / `swap_remove` / "
        "`split_off` instead of rebuilding (index shifting, order changes); iterator adaptor swaps "
        "(`zip` truncation, `take_while` vs `filter`, `find` vs `rfind`, `min_by` vs `max_by` on ties, "
        "`any` vs `all` on empty input, `chunks` remainders, `windows` on short input, `fold` seeds); "
        "numeric casts and arithmetic (`as i64` / `as u32` / `as usize` truncation or saturation, "
        "`floor` vs `round` vs `trunc` for negatives, `abs_diff`, integer division, `powi` vs repeated "
        "multiplication, `<=` vs `<` at a tolerance, f64 `max` / `min` with NaN or signed zero)."
    ),
    "8": (
        "This round, aim for mistakes around OWNERSHIP, OPTIONS and ERRORS that a reviewer would wave "
        "through: a sibling function's body copied and adapted incompletely (one identifier or one "
        "branch left from the sibling); `unwrap_or_default` / `unwrap_or(..)` / `.ok()` / `filter_map` / "
        "`flatten` silently turning a missing value or an error into a default or dropping the element; "
        "`Option::take` / `mem::take` / `drain` leaving the source emptied on an error path; mutating a "
        "clone instead of the original (or the original instead of a clone) so that a change is lost "
        "or leaks; collecting into `Result<Vec<_>>` vs. collecting partial results; `entry().or_insert` "
        "vs `insert` (first wins vs last wins); `extend` vs replace; `append` order; an `else` branch "
        "or a match arm dropped for one enum value; a field forgotten in a struct literal that ends "
        "with `..Default::default()` or `..self.clone()`; swapped arguments of the same type; a "
        "negated condition that only matters for one combination of two flags."
    ),
    "9": (
        "This round you are free in the KIND of mistake; what matters is WHERE: read the property "
        "statement clause by clause and pick clauses (or combinations of two clauses) that NONE of the "
        "earlier changes listed below touched, or inputs the quantifier names that none of them needed "
        "(look at the parenthesised lists in the statement and the quantifier: every item in them is a "
        "promise). Prefer a change whose demonstration needs two features of the input at once (for "
        "example a removed constraint AND a dependency, a legacy layout AND a tie, a ranged row AND a "
        "negative bound)."
    ),
}
AIMS["10"] = AIMS["9"]


def main():
    rnd, la, lb = sys.argv[1], sys.argv[2], sys.argv[3]
    only = set(sys.argv[4:])
    props = [json.loads(l) for l in open("/verif/properties.jsonl")]
    os.makedirs("/tmp/seedwork", exist_ok=True)
    for p in props:
        pid = p["id"]
        if only and pid not in only:
            continue
        low = pid.lower()
        earlier = []
        for d in sorted(glob.glob(f"/verif/seeded/{pid}-*/meta.json")):
            try:
                m = json.load(open(d))
            except Exception:
                continue
            s = (m.get("summary") or "").replace("\n", " ").strip()
            if s:
                earlier.append("  - " + s[:330])
        txt = f"""You are helping test a verification framework by seeding realistic defects into a Rust library. Work ONLY inside the git worktree /tmp/wt-{pid} (a checkout of the repository Jij-Inc/ommx, the Rust crate is at rust/ommx). Do not touch /repo or /verif, and do not read anything under /verif. The sandbox has no network: always pass --offline to cargo.

The property that is supposed to hold for this library:

  Title: {p['title']}
  Statement: {p['statement']}
  Quantified over: {p['quantifier']['text']}

Your task: produce TWO independent, different changes (call them {la} and {lb}) to the library source (under rust/ommx/src, or proto/ / python/ommx/ommx/v1 if the property is about them) such that each change, applied alone:
  1. still compiles,
  2. still passes the existing test suite unchanged:  cd /tmp/wt-{pid} && cargo test -p ommx --lib --offline   (must report 102 passed; do not edit, delete or add to existing tests),
  3. BREAKS the property above, but only in a way that needs something specific to manifest. {AIMS[rnd]} It must look like a plausible human mistake or well-meant refactoring/optimisation, not sabotage, with no comments that give it away.
  4. comes with a demonstration: a small Rust integration test file (put it at rust/ommx/tests/demo_{low}_{la.lower()}.rs resp. _{lb.lower()}.rs, using only the public API of the `ommx` crate; all `ommx::v1` message structs are #[non_exhaustive], so build them with Default::default() and field assignment or through the public constructors/operators) that FAILS with the change and PASSES without it. Run it both ways to confirm:  cargo test -p ommx --offline --test demo_{low}_{la.lower()}

Several changes were already made by others for this property; do NOT repeat any of these ideas or a close variant — use a different code site, a different clause of the property statement, or a different triggering condition:
{chr(10).join(earlier)}

Deliverables (write these files, they are all I will look at):
  /tmp/seedwork/{pid}/{la}/patch.diff   — `git diff` of the library change only (NOT including the demo test), relative to the worktree root, appliable with `git apply`
  /tmp/seedwork/{pid}/{la}/demo.rs      — the demonstration test file
  /tmp/seedwork/{pid}/{la}/meta.json    — {{"property": "{pid}", "summary": "...what was changed...", "needs_to_manifest": "...the specific input/sequence/condition...", "files_touched": [...], "ran": ["commands you ran and their outcome"]}}
  and the same under /tmp/seedwork/{pid}/{lb}/.
When you are done, leave the worktree with NO library change applied (git checkout -- . ; remove the demo tests from the worktree too) so it is clean. Keep your final answer to a few lines: for {la} and {lb}, one sentence each on what was changed and whether all four conditions were confirmed. If you could only produce one valid change, say so.

Hints: read the relevant source first (rust/ommx/src: evaluate.rs, linear.rs, quadratic.rs, polynomial.rs, v1_ext/*.rs, instance.rs, function.rs, constraint.rs, decision_variable.rs, parse.rs, bound.rs, sample_set.rs, parametric_instance.rs, mps/*.rs, qplib/*.rs, artifact*.rs, sorted_ids.rs, ommx.v1.rs). The first build takes a few minutes. Do not spend effort on anything else.
"""
        open(f"/tmp/seedwork/prompt{rnd}_{pid}.txt", "w").write(txt)
        for l in (la, lb):
            os.makedirs(f"/tmp/seedwork/{pid}/{l}", exist_ok=True)
    print("written")


if __name__ == "__main__":
    main()
